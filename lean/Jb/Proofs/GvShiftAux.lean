/-
  Helper lemmas for `Jb/Proofs/GvShift.lean`: the GV iteration commutes with a constant shift.
-/
import Jb.Proofs.Shift
import Jb.Proofs.Engine
import Jb.Proofs.Gv

set_option linter.unusedSectionVars false

namespace Jb

variable {K : Type} [Field K] [LinearOrder K] [IsStrictOrderedRing K] [FloorRing K]
  [Transc K] [Consts K] [MlpgConsts K]

/-! ### `calcGv` / `convGv` -/

theorem gvs_filterBy_map {β γ : Type} (f : β → γ) (xs : List β) (mask : List Bool) :
    filterBy (xs.map f) mask = (filterBy xs mask).map f := by
  induction xs generalizing mask with
  | nil => simp [filterBy]
  | cons x xs ih =>
    cases mask with
    | nil => simp [filterBy]
    | cons b bs =>
      cases b with
      | true => simp only [List.map_cons, filterBy_cons_true, ih bs]
      | false => simp only [List.map_cons, filterBy_cons_false, ih bs]

theorem gvs_sum_map_add (l : List K) (h : K) : (l.map (· + h)).sum = l.sum + (l.length : K) * h := by
  induction l with
  | nil => simp
  | cons a l ih =>
    simp only [List.map_cons, List.sum_cons, List.length_cons, ih]
    push_cast
    ring

theorem gvs_calcGv_fst (par : List K) (sw : List Bool) (gvLen : Nat) (h : K)
    (hlen : sw.length = par.length) (hg : gvLen = (sw.filter id).length) (hpos : 0 < gvLen) :
    (calcGv (par.map (· + h)) sw gvLen).1 = (calcGv par sw gvLen).1 + h := by
  have hel : (filterBy par sw).length = gvLen := by rw [hg]; exact filterBy_length par sw hlen.symm
  have hNK : (gvLen : K) ≠ 0 := ne_of_gt (Nat.cast_pos.mpr hpos)
  rw [calcGv_fst, calcGv_fst, gvs_filterBy_map, gvs_sum_map_add, hel]
  field_simp

theorem gvs_calcGv_snd (par : List K) (sw : List Bool) (gvLen : Nat) (h : K)
    (hlen : sw.length = par.length) (hg : gvLen = (sw.filter id).length) (hpos : 0 < gvLen) :
    (calcGv (par.map (· + h)) sw gvLen).2 = (calcGv par sw gvLen).2 := by
  rw [calcGv_snd, calcGv_snd par, gvs_calcGv_fst par sw gvLen h hlen hg hpos, gvs_filterBy_map, List.map_map]
  congr 2
  apply List.map_congr_left
  intro p _
  simp only [Function.comp]
  ring

theorem gvs_calcGv (par : List K) (sw : List Bool) (gvLen : Nat) (h : K)
    (hlen : sw.length = par.length) (hg : gvLen = (sw.filter id).length) (hpos : 0 < gvLen) :
    calcGv (par.map (· + h)) sw gvLen = ((calcGv par sw gvLen).1 + h, (calcGv par sw gvLen).2) :=
  Prod.ext (gvs_calcGv_fst par sw gvLen h hlen hg hpos) (gvs_calcGv_snd par sw gvLen h hlen hg hpos)

theorem gvs_convGv (par : List K) (sw : List Bool) (gvLen : Nat) (gm h : K)
    (hlen : sw.length = par.length) (hg : gvLen = (sw.filter id).length) (hpos : 0 < gvLen) :
    convGv (par.map (· + h)) sw gvLen gm = (convGv par sw gvLen gm).map (· + h) := by
  rw [convGv_def, convGv_def par, gvs_calcGv par sw gvLen h hlen hg hpos]
  simp only
  split_ifs with hv
  · rw [List.zip_map_left, List.map_map, List.map_map]
    apply List.map_congr_left
    rintro ⟨p, s⟩ _
    cases s
    · simp [gvF]
    · simp [gvF]; ring
  · rfl

/-! ### entries of the shifted lists -/

theorem gvs_shiftLeft_getD (i : Nat) (l : List K) (t : Nat) :
    (shiftLeft i l).getD t 0 = if t + i < l.length then l.getD (t + i) 0 else 0 := by
  unfold shiftLeft
  rw [List.getD_eq_getElem?_getD, List.getElem?_append]
  simp only [List.length_drop, List.getElem?_drop]
  split_ifs with h1 h2 h2
  · rw [List.getD_eq_getElem?_getD, Nat.add_comm]
  · omega
  · omega
  · rw [List.getElem?_replicate]
    split_ifs <;> rfl

theorem gvs_shiftRight_getD (i : Nat) (l : List K) (t : Nat) :
    (shiftRight i l).getD t 0 = if i ≤ t ∧ t < l.length then l.getD (t - i) 0 else 0 := by
  unfold shiftRight
  rw [List.getD_eq_getElem?_getD, List.getElem?_take]
  split_ifs with h1 h2 h2
  · rw [List.getElem?_append_right (by simpa using h2.1), List.length_replicate, List.getD_eq_getElem?_getD]
  · rw [List.getElem?_append_left (by simp; omega), List.getElem?_replicate]
    split_ifs <;> rfl
  · omega
  · rfl

theorem gvs_zipmul_getD (l1 l2 : List K) (t : Nat) (h1 : t < l1.length) :
    ((l1.zip l2).map fun (a, p) => a * p).getD t 0 = l1.getD t 0 * l2.getD t 0 := by
  rcases Nat.lt_or_ge t l2.length with h2 | h2
  · rw [List.getD_eq_getElem _ _ (by simp; omega), List.getD_eq_getElem _ _ h1, List.getD_eq_getElem _ _ h2]
    simp
  · rw [List.getD_eq_default _ _ (by simp; omega), List.getD_eq_default l2 _ h2, mul_zero]

theorem gvs_col_getD (rows : List (List K)) (i t : Nat) :
    (rows.map fun r => r.getD i 0).getD t 0 = bandAt rows t i := by
  unfold bandAt
  rcases Nat.lt_or_ge t rows.length with h | h
  · rw [List.getD_eq_getElem _ _ (by simpa using h), List.getD_eq_getElem _ _ h]
    simp
  · rw [List.getD_eq_default _ _ (by simpa using h), List.getD_eq_default _ _ h]
    simp

/-! ### the `g` component of `hmmobjDerivative` is the band product -/

def gvsFwd (m : MlpgMatrix K) (par : List K) (i : Nat) : List K :=
  (((m.wuw.map fun r => r.getD i 0).zip (shiftLeft i par)).map fun (a, p) => a * p).take (m.length - i) ++
    List.replicate (min i m.length) 0

def gvsBwd (m : MlpgMatrix K) (par : List K) (i : Nat) : List K :=
  shiftRight i (((m.wuw.map fun r => r.getD i 0).zip par).map fun (a, p) => a * p)

def gvsCombine (g F B : List K) : List K := (g.zip (F.zip B)).map fun (x, (f, b)) => x + f + b

/-- one pass (off-diagonal `i0 + 1`) of the loop in `calc_hmmobj_derivative` -/
def gvsStep (m : MlpgMatrix K) (par : List K) (g : List K) (i0 : Nat) : List K :=
  gvsCombine g (gvsFwd m par (i0 + 1)) (gvsBwd m par (i0 + 1))

theorem gvs_hmm_snd (m : MlpgMatrix K) (par : List K) :
    (hmmobjDerivative m par).2 =
      (List.range (m.width - 1)).foldl (gvsStep m par)
        (((m.wuw.map fun r => r.getD 0 0).zip par).map fun (a, p) => a * p) := rfl

theorem gvs_hmm_fst (m : MlpgMatrix K) (par : List K) :
    (hmmobjDerivative m par).1 =
      (par.zip (m.wum.zip (hmmobjDerivative m par).2)).foldl
        (fun acc (p, (r, gt)) => acc + 1 * (1 / ((m.winSize * m.length : Nat) : K)) * p *
          (r - 1 / ((2 : Nat) : K) * gt)) 0 := rfl

theorem gvsFwd_length (m : MlpgMatrix K) (par : List K) (i T : Nat) (h1 : m.wuw.length = T)
    (h2 : m.length = T) (hp : par.length = T) : (gvsFwd m par i).length = T := by
  unfold gvsFwd
  simp only [List.length_map, List.length_zip, List.length_append, List.length_take, List.length_replicate,
    shiftLeft, List.length_drop, h1, h2, hp]
  omega

theorem gvsBwd_length (m : MlpgMatrix K) (par : List K) (i T : Nat) (h1 : m.wuw.length = T)
    (hp : par.length = T) : (gvsBwd m par i).length = T := by
  unfold gvsBwd
  simp only [List.length_map, List.length_zip, List.length_append, List.length_take, List.length_replicate,
    shiftRight, h1, hp]
  omega

theorem gvsCombine_length (g F B : List K) (T : Nat) (hg : g.length = T) (hF : F.length = T) (hB : B.length = T) :
    (gvsCombine g F B).length = T := by
  unfold gvsCombine
  simp [hg, hF, hB]

theorem gvsCombine_getD (g F B : List K) (T t : Nat) (hg : g.length = T) (hF : F.length = T) (hB : B.length = T)
    (ht : t < T) : (gvsCombine g F B).getD t 0 = g.getD t 0 + F.getD t 0 + B.getD t 0 := by
  rw [List.getD_eq_getElem _ _ (by rw [gvsCombine_length g F B T hg hF hB]; exact ht),
    List.getD_eq_getElem _ _ (by omega), List.getD_eq_getElem _ _ (by omega), List.getD_eq_getElem _ _ (by omega)]
  simp [gvsCombine]

theorem gvsStep_length (m : MlpgMatrix K) (par g : List K) (i0 T : Nat) (h1 : m.wuw.length = T)
    (h2 : m.length = T) (hp : par.length = T) (hg : g.length = T) : (gvsStep m par g i0).length = T :=
  gvsCombine_length _ _ _ T hg (gvsFwd_length m par _ T h1 h2 hp) (gvsBwd_length m par _ T h1 hp)

theorem gvs_fwd_getD (l : List K) (n i T t : Nat) (hl : l.length = T) (ht : t < T) :
    (l.take (T - i) ++ List.replicate n 0).getD t 0 = if t + i < T then l.getD t 0 else 0 := by
  rw [List.getD_eq_getElem?_getD, List.getElem?_append]
  simp only [List.length_take, hl]
  split_ifs with h1 h2 h2
  · rw [List.getElem?_take, if_pos (by omega), List.getD_eq_getElem?_getD]
  · omega
  · omega
  · rw [List.getElem?_replicate]
    split_ifs <;> rfl

theorem gvsFwd_getD (m : MlpgMatrix K) (par : List K) (i T t : Nat) (h1 : m.wuw.length = T)
    (h2 : m.length = T) (hp : par.length = T) (ht : t < T) :
    (gvsFwd m par i).getD t 0 = if t + i < T then bandAt m.wuw t i * par.getD (t + i) 0 else 0 := by
  have hcol : (m.wuw.map fun (r : List K) => r.getD i 0).length = T := by simpa using h1
  unfold gvsFwd
  rw [h2, gvs_fwd_getD _ _ _ T t (by simp [shiftLeft, h1, hp]; omega) ht]
  split_ifs with hc
  · rw [gvs_zipmul_getD _ _ t (by rw [hcol]; exact ht), gvs_col_getD, gvs_shiftLeft_getD, hp, if_pos hc]
  · rfl

theorem gvsBwd_getD (m : MlpgMatrix K) (par : List K) (i T t : Nat) (h1 : m.wuw.length = T)
    (hp : par.length = T) (ht : t < T) :
    (gvsBwd m par i).getD t 0 = if i ≤ t then bandAt m.wuw (t - i) i * par.getD (t - i) 0 else 0 := by
  have hcol : (m.wuw.map fun (r : List K) => r.getD i 0).length = T := by simpa using h1
  unfold gvsBwd
  rw [gvs_shiftRight_getD]
  have hbl : (((m.wuw.map fun (r : List K) => r.getD i 0).zip par).map fun (a, p) => a * p).length = T := by
    simp [h1, hp]
  rw [hbl]
  by_cases hc : i ≤ t
  · rw [if_pos ⟨hc, ht⟩, if_pos hc, gvs_zipmul_getD _ _ _ (by rw [hcol]; omega), gvs_col_getD]
  · rw [if_neg (fun h => hc h.1), if_neg hc]

theorem gvsStep_getD (m : MlpgMatrix K) (par g : List K) (i0 T t : Nat) (h1 : m.wuw.length = T)
    (h2 : m.length = T) (hp : par.length = T) (hg : g.length = T) (ht : t < T) :
    (gvsStep m par g i0).getD t 0 = g.getD t 0 +
      (if t + (i0 + 1) < T then bandAt m.wuw t (i0 + 1) * par.getD (t + (i0 + 1)) 0 else 0) +
      (if i0 + 1 ≤ t then bandAt m.wuw (t - (i0 + 1)) (i0 + 1) * par.getD (t - (i0 + 1)) 0 else 0) := by
  unfold gvsStep
  rw [gvsCombine_getD _ _ _ T t hg (gvsFwd_length m par _ T h1 h2 hp) (gvsBwd_length m par _ T h1 hp) ht,
    gvsFwd_getD m par _ T t h1 h2 hp ht, gvsBwd_getD m par _ T t h1 hp ht]

theorem gvs_fold_spec (m : MlpgMatrix K) (par : List K) (T : Nat) (h1 : m.wuw.length = T)
    (h2 : m.length = T) (hp : par.length = T) (g0 : List K) (hg : g0.length = T) (t : Nat) (ht : t < T) (n : Nat) :
    ((List.range n).foldl (gvsStep m par) g0).length = T ∧
    ((List.range n).foldl (gvsStep m par) g0).getD t 0 = g0.getD t 0 +
      (Finset.range n).sum fun i0 =>
        (if t + (i0 + 1) < T then bandAt m.wuw t (i0 + 1) * par.getD (t + (i0 + 1)) 0 else 0) +
        (if i0 + 1 ≤ t then bandAt m.wuw (t - (i0 + 1)) (i0 + 1) * par.getD (t - (i0 + 1)) 0 else 0) := by
  induction n with
  | zero => simp [hg]
  | succ n ih =>
    obtain ⟨ihl, ihv⟩ := ih
    rw [List.range_succ, List.foldl_append, List.foldl_cons, List.foldl_nil]
    refine ⟨gvsStep_length m par _ n T h1 h2 hp ihl, ?_⟩
    rw [gvsStep_getD m par _ n T t h1 h2 hp ihl ht, ihv, Finset.sum_range_succ]
    ring

/-- **`g = A·par`** in the banded form used by the LDL lemmas -/
theorem gvs_hmm_g_band (m : MlpgMatrix K) (par : List K) (T : Nat) (h1 : m.wuw.length = T)
    (h2 : m.length = T) (hp : par.length = T) (hw : 1 ≤ m.width) (t : Nat) (ht : t < T) :
    (hmmobjDerivative m par).2.getD t 0 = bandMulVec m.width m.wuw par t := by
  obtain ⟨n, hn⟩ : ∃ n, m.width = n + 1 := ⟨m.width - 1, by omega⟩
  have hcol : (m.wuw.map fun (r : List K) => r.getD 0 0).length = T := by simpa using h1
  rw [gvs_hmm_snd, hn, Nat.add_sub_cancel,
    (gvs_fold_spec m par T h1 h2 hp _ (by simp [h1, hp]) t ht n).2,
    gvs_zipmul_getD _ _ t (by rw [hcol]; exact ht), gvs_col_getD]
  unfold bandMulVec
  rw [Finset.sum_range_succ', Finset.sum_range_succ', Finset.sum_add_distrib, h1]
  simp only [Nat.add_zero, if_pos ht, Nat.sub_zero]
  rw [if_neg (by omega)]
  have e : ∀ i0 : Nat, (1 ≤ i0 + 1 ∧ i0 + 1 ≤ t) ↔ i0 + 1 ≤ t := fun i0 => ⟨fun h => h.2, fun h => ⟨by omega, h⟩⟩
  simp only [e]
  ring

/-! ### the HMM objective as a finite sum -/

theorem gvs_foldl_map {β : Type} (F : β → K) (l : List β) (a : K) :
    l.foldl (fun acc x => acc + F x) a = a + (l.map F).sum := by
  induction l generalizing a with
  | nil => simp
  | cons x xs ih => simp only [List.foldl_cons, List.map_cons, List.sum_cons, ih]; ring

theorem gvs_obj_sum (c hf : K) (p r g : List K) (T : Nat) (hp : p.length = T) (hr : r.length = T)
    (hg : g.length = T) :
    (p.zip (r.zip g)).foldl (fun acc (x : K × K × K) => acc + c * x.1 * (x.2.1 - hf * x.2.2)) 0 =
      (Finset.range T).sum fun t => c * p.getD t 0 * (r.getD t 0 - hf * g.getD t 0) := by
  rw [gvs_foldl_map (fun (x : K × K × K) => c * x.1 * (x.2.1 - hf * x.2.2)), zero_add, ← asm_sum_map_range]
  congr 1
  apply List.ext_getElem
  · simp [hp, hr, hg]
  · intro i h1 h2
    simp only [List.length_map, List.length_range] at h2
    rw [List.getElem_map, List.getElem_map, List.getElem_range, List.getElem_zip, List.getElem_zip,
      List.getD_eq_getElem _ _ (by omega), List.getD_eq_getElem _ _ (by omega), List.getD_eq_getElem _ _ (by omega)]

theorem gvs_hmm_fst_sum (m : MlpgMatrix K) (par : List K) (T : Nat) (h1 : m.wuw.length = T)
    (h2 : m.length = T) (h3 : m.wum.length = T) (hp : par.length = T) :
    (hmmobjDerivative m par).1 = (Finset.range T).sum fun t =>
      (1 * (1 / ((m.winSize * m.length : Nat) : K))) * par.getD t 0 *
        (m.wum.getD t 0 - 1 / ((2 : Nat) : K) * (hmmobjDerivative m par).2.getD t 0) := by
  rw [gvs_hmm_fst]
  exact gvs_obj_sum _ _ par m.wum _ T hp h3 (hmmobjDerivative_length m par T h1 h2 hp)

/-! ### two matrices that differ by the shift of the static means -/

/-- what `calcWuwWum_shift` gives: same band, same sizes, `g = A·par` for a symmetric dense `A`, and the
    right-hand side moved by `h` times the row sums of `A` -/
structure GvsPair (m m' : MlpgMatrix K) (T : Nat) (h : K) (A : Nat → Nat → K) : Prop where
  wuw : m'.wuw = m.wuw
  width : m'.width = m.width
  len : m'.length = m.length
  win : m'.winSize = m.winSize
  h1 : m.wuw.length = T
  h2 : m.length = T
  h3 : m.wum.length = T
  h3' : m'.wum.length = T
  hA : ∀ c : List K, c.length = T → ∀ t, t < T →
    (hmmobjDerivative m c).2.getD t 0 = (Finset.range T).sum fun t' => A t t' * c.getD t' 0
  hsym : ∀ t t', A t t' = A t' t
  hr : ∀ t, t < T → m'.wum.getD t 0 = m.wum.getD t 0 + h * (Finset.range T).sum fun t' => A t t'

variable {m m' : MlpgMatrix K} {T : Nat} {h : K} {A : Nat → Nat → K}

theorem GvsPair.snd_eq (P : GvsPair m m' T h A) (c : List K) :
    (hmmobjDerivative m' c).2 = (hmmobjDerivative m c).2 := by
  have hs : gvsStep m' c = gvsStep m c := by
    funext g i0
    unfold gvsStep gvsFwd gvsBwd
    rw [P.wuw, P.len]
  rw [gvs_hmm_snd, gvs_hmm_snd, P.width, P.wuw, hs]

theorem gvs_map_getD (par : List K) (h : K) (t : Nat) (ht : t < par.length) :
    (par.map (· + h)).getD t 0 = par.getD t 0 + h := by
  rw [List.getD_eq_getElem _ _ (by simpa using ht), List.getD_eq_getElem _ _ ht]
  simp

theorem GvsPair.g_shift (P : GvsPair m m' T h A) (par : List K) (hp : par.length = T) (t : Nat) (ht : t < T) :
    (hmmobjDerivative m' (par.map (· + h))).2.getD t 0 =
      (hmmobjDerivative m par).2.getD t 0 + h * (Finset.range T).sum fun t' => A t t' := by
  rw [P.snd_eq, P.hA _ (by simpa using hp) t ht, P.hA par hp t ht, Finset.mul_sum, ← Finset.sum_add_distrib]
  apply Finset.sum_congr rfl
  intro t' ht'
  rw [gvs_map_getD par h t' (by rw [hp]; exact Finset.mem_range.mp ht')]
  ring

/-- `p·(A 1) = 1·(A p)` -/
theorem GvsPair.sym_sum (P : GvsPair m m' T h A) (par : List K) (hp : par.length = T) :
    ((Finset.range T).sum fun t => par.getD t 0 * (Finset.range T).sum fun t' => A t t') =
      (Finset.range T).sum fun t => (hmmobjDerivative m par).2.getD t 0 := by
  rw [Finset.sum_congr rfl (fun t ht => P.hA par hp t (Finset.mem_range.mp ht))]
  simp only [Finset.mul_sum]
  rw [Finset.sum_comm]
  apply Finset.sum_congr rfl
  intro t _
  apply Finset.sum_congr rfl
  intro t' _
  rw [P.hsym t' t, mul_comm]

/-- the constant by which the HMM objective moves -/
def gvsKappa (m : MlpgMatrix K) (T : Nat) (h : K) (A : Nat → Nat → K) : K :=
  (1 * (1 / ((m.winSize * m.length : Nat) : K))) *
    (h * ((Finset.range T).sum fun t => m.wum.getD t 0) +
      1 / ((2 : Nat) : K) * h ^ 2 * (Finset.range T).sum fun t => (Finset.range T).sum fun t' => A t t')

theorem gvs_half : (1 : K) / ((2 : Nat) : K) = 1 / 2 := by norm_num

theorem GvsPair.obj_shift (P : GvsPair m m' T h A) (par : List K) (hp : par.length = T) :
    (hmmobjDerivative m' (par.map (· + h))).1 = (hmmobjDerivative m par).1 + gvsKappa m T h A := by
  have h1' : m'.wuw.length = T := by rw [P.wuw]; exact P.h1
  have h2' : m'.length = T := by rw [P.len]; exact P.h2
  rw [gvs_hmm_fst_sum m' _ T h1' h2' P.h3' (by simpa using hp), gvs_hmm_fst_sum m par T P.h1 P.h2 P.h3 hp,
    P.win, P.len]
  unfold gvsKappa
  generalize (1 * (1 / ((m.winSize * m.length : Nat) : K))) = c
  rw [gvs_half]
  have hterm : ∀ t ∈ Finset.range T,
      c * (par.map (· + h)).getD t 0 *
        (m'.wum.getD t 0 - 1 / 2 * (hmmobjDerivative m' (par.map (· + h))).2.getD t 0) =
      c * par.getD t 0 * (m.wum.getD t 0 - 1 / 2 * (hmmobjDerivative m par).2.getD t 0) +
        (c * h * m.wum.getD t 0 + c * (1 / 2) * h ^ 2 * ((Finset.range T).sum fun t' => A t t')) +
        (c * (1 / 2) * h * (par.getD t 0 * ((Finset.range T).sum fun t' => A t t')) -
          c * (1 / 2) * h * (hmmobjDerivative m par).2.getD t 0) := by
    intro t ht
    rw [Finset.mem_range] at ht
    rw [gvs_map_getD par h t (by rw [hp]; exact ht), P.hr t ht, P.g_shift par hp t ht]
    ring
  rw [Finset.sum_congr rfl hterm, Finset.sum_add_distrib, Finset.sum_add_distrib, Finset.sum_add_distrib,
    Finset.sum_sub_distrib, ← Finset.mul_sum, ← Finset.mul_sum, ← Finset.mul_sum, ← Finset.mul_sum,
    P.sym_sum par hp]
  ring

/-! ### `next_step` and the loop -/

/-- the per-frame update of `next_step` -/
def gvsNext (W L : Nat) (step mean vari gm gv : K) (p : K) (s : Bool) (gt r a0 : K) : K :=
  p + step *
    (if s then
      1 / (-(1 : K) * (1 / ((W * L : Nat) : K)) * a0
        - 1 * ((2 : Nat) : K) / ((L * L : Nat) : K)
          * (((L - 1 : Nat) : K) * gv * (vari - gm) + ((2 : Nat) : K) * gv * (p - mean) * (p - mean))) *
        (1 * (1 / ((W * L : Nat) : K)) * (-gt + r) +
          1 * (-((2 : Nat) : K) * gv * (vari - gm) / (L : K)) * (p - mean))
    else
      1 / (-(1 : K) * (1 / ((W * L : Nat) : K)) * a0
        - 1 * ((2 : Nat) : K) / ((L * L : Nat) : K)
          * (((L - 1 : Nat) : K) * gv * (vari - gm) + ((2 : Nat) : K) * gv * (p - mean) * (p - mean))) *
        (1 * (1 / ((W * L : Nat) : K)) * (-gt + r)))

theorem gvs_nextStep_def (m : MlpgMatrix K) (par : List K) (sw : List Bool) (g : List K)
    (step mean vari gm gv : K) :
    gvNextStep m par sw g step mean vari gm gv =
      ((par.zip sw).zip (g.zip (m.wum.zip (m.wuw.map fun r => r.getD 0 0)))).map fun x =>
        gvsNext m.winSize m.length step mean vari gm gv x.1.1 x.1.2 x.2.1 x.2.2.1 x.2.2.2 := rfl

theorem gvsNext_shift (W L : Nat) (step mean vari gm gv h : K) (p : K) (s : Bool) (gt r gt' r' a0 : K)
    (key : -gt' + r' = -gt + r) :
    gvsNext W L step (mean + h) vari gm gv (p + h) s gt' r' a0 =
      gvsNext W L step mean vari gm gv p s gt r a0 + h := by
  unfold gvsNext
  rw [key, add_sub_add_right_eq_sub, add_right_comm]

theorem GvsPair.nextStep_shift (P : GvsPair m m' T h A) (par : List K) (sw : List Bool) (step mean vari gm gv : K)
    (hp : par.length = T) (hs : sw.length = T) :
    gvNextStep m' (par.map (· + h)) sw (hmmobjDerivative m' (par.map (· + h))).2 step (mean + h) vari gm gv =
      (gvNextStep m par sw (hmmobjDerivative m par).2 step mean vari gm gv).map (· + h) := by
  have h1' : m'.wuw.length = T := by rw [P.wuw]; exact P.h1
  have h2' : m'.length = T := by rw [P.len]; exact P.h2
  have hp' : (par.map (· + h)).length = T := by simpa using hp
  have hg := hmmobjDerivative_length m par T P.h1 P.h2 hp
  have hg' := hmmobjDerivative_length m' (par.map (· + h)) T h1' h2' hp'
  have hL := gvNextStep_length m par sw (hmmobjDerivative m par).2 step mean vari gm gv T P.h1 P.h3 hp hs hg
  have hL' := gvNextStep_length m' (par.map (· + h)) sw (hmmobjDerivative m' (par.map (· + h))).2 step
    (mean + h) vari gm gv T h1' P.h3' hp' hs hg'
  apply List.ext_getElem
  · rw [hL', List.length_map, hL]
  · intro t ht1 ht2
    have ht : t < T := by rw [hL'] at ht1; exact ht1
    have key : -(hmmobjDerivative m' (par.map (· + h))).2[t]'(by omega) + m'.wum[t]'(by rw [P.h3']; exact ht) =
        -(hmmobjDerivative m par).2[t]'(by omega) + m.wum[t]'(by rw [P.h3]; exact ht) := by
      have e1 := P.g_shift par hp t ht
      have e2 := P.hr t ht
      rw [List.getD_eq_getElem _ _ (by omega), List.getD_eq_getElem _ _ (by omega)] at e1
      rw [List.getD_eq_getElem _ _ (by rw [P.h3']; exact ht), List.getD_eq_getElem _ _ (by rw [P.h3]; exact ht)] at e2
      rw [e1, e2]
      ring
    simp only [gvs_nextStep_def, List.getElem_map, List.getElem_zip, P.wuw, P.len, P.win]
    exact gvsNext_shift _ _ _ _ _ _ _ _ _ _ _ _ _ _ _ key

/-- the objective `-(hmmobj + gvobj)` of one iteration -/
def gvsObj (m : MlpgMatrix K) (sw : List Bool) (gm gv : K) (gvLen : Nat) (half : K) (par : List K) : K :=
  -((hmmobjDerivative m par).1 +
    -half * 1 * (calcGv par sw gvLen).2 * gv * ((calcGv par sw gvLen).2 - ((2 : Nat) : K) * gm))

/-- the step-size adaptation -/
def gvsStepSz (sd si : K) (i : Nat) (step prev obj : K) : K :=
  if i > 1 then (if prev < obj then step * sd else if obj < prev then step * si else step) else step

theorem gvs_loop_succ (m : MlpgMatrix K) (sw : List Bool) (gm gv : K) (gvLen : Nat) (half sd si : K)
    (i fuel : Nat) (par : List K) (step prev : K) :
    gvParmgen.loop m sw gm gv gvLen half sd si i (fuel + 1) par step prev =
      gvParmgen.loop m sw gm gv gvLen half sd si (i + 1) fuel
        (gvNextStep m par sw (hmmobjDerivative m par).2
          (gvsStepSz sd si i step prev (gvsObj m sw gm gv gvLen half par))
          (calcGv par sw gvLen).1 (calcGv par sw gvLen).2 gm gv)
        (gvsStepSz sd si i step prev (gvsObj m sw gm gv gvLen half par))
        (gvsObj m sw gm gv gvLen half par) := by
  rw [gvParmgen.loop]
  rfl

theorem GvsPair.gvsObj_shift (P : GvsPair m m' T h A) (sw : List Bool) (gm gv : K) (gvLen : Nat) (half : K)
    (par : List K) (hp : par.length = T) (hs : sw.length = T) (hg : gvLen = (sw.filter id).length)
    (hpos : 0 < gvLen) :
    gvsObj m' sw gm gv gvLen half (par.map (· + h)) = gvsObj m sw gm gv gvLen half par - gvsKappa m T h A := by
  unfold gvsObj
  rw [gvs_calcGv_snd par sw gvLen h (by rw [hs, hp]) hg hpos, P.obj_shift par hp]
  ring

theorem gvsStepSz_shift (sd si : K) (i : Nat) (step prev obj prev' κ : K) (hprev : i > 1 → prev' = prev - κ) :
    gvsStepSz sd si i step prev' (obj - κ) = gvsStepSz sd si i step prev obj := by
  unfold gvsStepSz
  by_cases hi : i > 1
  · rw [if_pos hi, if_pos hi, hprev hi]
    simp only [sub_lt_sub_iff_right]
  · rw [if_neg hi, if_neg hi]

theorem GvsPair.loop_shift (P : GvsPair m m' T h A) (sw : List Bool) (gm gv : K) (gvLen : Nat) (half sd si : K)
    (hs : sw.length = T) (hg : gvLen = (sw.filter id).length) (hpos : 0 < gvLen) (fuel : Nat) :
    ∀ (i : Nat) (par : List K) (step prev prev' : K), par.length = T →
      (i > 1 → prev' = prev - gvsKappa m T h A) →
      gvParmgen.loop m' sw gm gv gvLen half sd si i fuel (par.map (· + h)) step prev' =
        (gvParmgen.loop m sw gm gv gvLen half sd si i fuel par step prev).map (· + h) := by
  induction fuel with
  | zero =>
    intro i par step prev prev' _ _
    simp [gvParmgen.loop]
  | succ fuel ih =>
    intro i par step prev prev' hp hprev
    rw [gvs_loop_succ, gvs_loop_succ, P.gvsObj_shift sw gm gv gvLen half par hp hs hg hpos,
      gvsStepSz_shift sd si i step prev _ prev' _ hprev,
      gvs_calcGv_fst par sw gvLen h (by rw [hs, hp]) hg hpos,
      gvs_calcGv_snd par sw gvLen h (by rw [hs, hp]) hg hpos,
      P.nextStep_shift par sw _ _ _ gm gv hp hs]
    apply ih
    · exact gvNextStep_length _ _ _ _ _ _ _ _ _ T P.h1 P.h3 hp hs (hmmobjDerivative_length m par T P.h1 P.h2 hp)
    · intro _
      rfl

theorem GvsPair.parmgen_shift (P : GvsPair m m' T h A) (par : List K) (sw : List Bool) (gm gv : K)
    (hp : par.length = T) (hs : sw.length = T) :
    gvParmgen m' (par.map (· + h)) sw gm gv = (gvParmgen m par sw gm gv).map (· + h) := by
  unfold gvParmgen
  simp only
  split_ifs with h0
  · rfl
  · have hpos : 0 < (sw.filter id).length := Nat.pos_of_ne_zero h0
    rw [gvs_convGv par sw _ gm h (by rw [hs, hp]) rfl hpos]
    apply P.loop_shift sw gm gv _ _ _ _ hs rfl hpos
    · have := convGv_length par sw (sw.filter id).length gm
      rw [hp, hs] at this
      omega
    · intro hc
      omega

/-! ### the matrices `calc_wuw_and_wum` builds before / after the shift form such a pair -/

theorem gvs_calc_fields (windows : List (List K)) (o0 : List (MeanVari K)) (os : List (List (MeanVari K)))
    (m : MlpgMatrix K) (hm : calcWuwWum windows (o0 :: os) = some m) :
    m.winSize = windows.length ∧ m.length = o0.length ∧ m.width = maxWidth windows * 2 + 1 ∧
      m.wuw = assembledRows windows (o0 :: os) o0.length (maxWidth windows * 2 + 1) ∧
      m.wum = (List.range o0.length).map fun t =>
        (wuwRow windows (o0 :: os) o0.length (maxWidth windows * 2 + 1) t).2 := by
  simp only [calcWuwWum, Option.some.injEq] at hm
  subst hm
  refine ⟨rfl, rfl, rfl, ?_, ?_⟩
  · simp only [assembledRows, List.map_map]
    rfl
  · simp only [List.map_map]
    rfl

theorem gvs_pair_of_calc (ws : List (List K)) (o0 : List (MeanVari K)) (os : List (List (MeanVari K))) (T : Nat)
    (hobs : ∀ o ∈ o0 :: os, o.length = T) (hedge : EdgeZero (([1] : List K) :: ws) (o0 :: os) T)
    (hsum : ∀ w ∈ ws, w.sum = 0) (h : K) (m m' : MlpgMatrix K)
    (hm : calcWuwWum (([1] : List K) :: ws) (o0 :: os) = some m)
    (hm' : calcWuwWum (([1] : List K) :: ws) ((o0.map fun mv => (⟨mv.mean + h, mv.vari⟩ : MeanVari K)) :: os) = some m') :
    GvsPair m m' T h (wpwEntry (([1] : List K) :: ws) (o0 :: os) T) := by
  have hT : o0.length = T := hobs o0 List.mem_cons_self
  obtain ⟨hwuw, hwidth⟩ := calcWuwWum_shift_wuw (([1] : List K) :: ws) (o0 :: os) h m m' hm hm'
  obtain ⟨f1, f2, f3, f4, f5⟩ := gvs_calc_fields _ o0 os m hm
  obtain ⟨f1', f2', -, -, f5'⟩ := gvs_calc_fields _ _ os m' hm'
  rw [List.length_map] at f2' f5'
  rw [hT] at f2 f4 f5 f2' f5'
  have hw := length_le_width (([1] : List K) :: ws)
  have hw1 : 1 ≤ maxWidth (([1] : List K) :: ws) * 2 + 1 := by omega
  have hobs' : ∀ o ∈ (o0.map fun mv => (⟨mv.mean + h, mv.vari⟩ : MeanVari K)) :: os, o.length = T := by
    intro o ho
    rcases List.mem_cons.mp ho with rfl | ho
    · rw [List.length_map]; exact hT
    · exact hobs o (List.mem_cons_of_mem _ ho)
  have hedge' : EdgeZero (([1] : List K) :: ws)
      ((o0.map fun mv => (⟨mv.mean + h, mv.vari⟩ : MeanVari K)) :: os) T := by
    intro wo hwo s hs hcut
    rw [List.zip_cons_cons] at hwo
    rcases List.mem_cons.mp hwo with rfl | hwo
    · simp only
      rw [shift_getD_vari]
      exact hedge (([1] : List K), o0) (by rw [List.zip_cons_cons]; exact List.mem_cons_self) s hs hcut
    · exact hedge wo (by rw [List.zip_cons_cons]; exact List.mem_cons_of_mem _ hwo) s hs hcut
  have h1 : m.wuw.length = T := by rw [f4, assembledRows_length]
  refine ⟨hwuw, hwidth, by rw [f2', f2], by rw [f1', f1], h1, f2, by rw [f5]; simp, by rw [f5']; simp, ?_,
    fun t t' => wpwEntry_comm _ _ T t t', ?_⟩
  · intro c hc t ht
    rw [gvs_hmm_g_band m c T h1 f2 hc (by rw [f3]; exact hw1) t ht, f3, f4]
    exact assembled_mulVec _ _ T _ hw hw1 hedge c t ht
  · intro t ht
    rw [f5, f5', List.getD_eq_getElem _ _ (by simpa using ht), List.getD_eq_getElem _ _ (by simpa using ht),
      List.getElem_map, List.getElem_map, List.getElem_range,
      (wuwRow_eq _ _ T _ t ht hw hobs' hedge').1, (wuwRow_eq _ _ T _ t ht hw hobs hedge).1,
      shift_wpmEntry ws o0 os h T t hT ht, shift_wpw_rowsum ws o0 os T hedge hsum t ht]

end Jb
