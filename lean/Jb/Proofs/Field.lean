/-
  Instantiating the model's scalar classes at a linearly ordered field with a floor function.
  `roundMax1 x = max 1 ⌊x + 1/2⌋₊` equals Rust's `x.round().max(1.0) as usize` for every real `x`
  (round-half-away-from-zero and `⌊x+½⌋` agree for `x ≥ 0`; for `x < ½` both sides are 1).
-/
import Jb.Model.Scalar
import Mathlib.Algebra.Order.Field.Basic
import Mathlib.Algebra.Order.Floor.Semiring
import Mathlib.Algebra.Order.Floor.Ring

namespace Jb

instance fieldRoundNat {K : Type} [Field K] [LinearOrder K] [IsStrictOrderedRing K] [FloorRing K] :
    RoundNat K := ⟨fun x => max 1 ⌊x + 1 / 2⌋₊⟩

theorem roundMax1_def {K : Type} [Field K] [LinearOrder K] [IsStrictOrderedRing K] [FloorRing K]
    (x : K) : RoundNat.roundMax1 x = max 1 ⌊x + 1 / 2⌋₊ := rfl

theorem roundMax1_pos {K : Type} [Field K] [LinearOrder K] [IsStrictOrderedRing K] [FloorRing K]
    (x : K) : 1 ≤ RoundNat.roundMax1 x := le_max_left _ _

theorem roundMax1_mono {K : Type} [Field K] [LinearOrder K] [IsStrictOrderedRing K] [FloorRing K]
    {x y : K} (h : x ≤ y) : RoundNat.roundMax1 x ≤ RoundNat.roundMax1 y := by
  rw [roundMax1_def, roundMax1_def]
  exact max_le_max le_rfl (Nat.floor_mono (by linarith))

end Jb
