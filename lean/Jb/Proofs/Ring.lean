/-
  The mixed-excitation ring buffer of `Jb/Model/Vocoder.lean` (`excGet`) is an overlap-add convolver:
  every sample adds a length-L contribution vector to the buffer, emits slot 0 and shifts. Hence the
  excitation is `y[n] = Σ_{i<L} contrib_{n−i}[i]`, which for `contrib_n[i] = pulse_n·h[i] + noise_n·(δ_{i,c} − h[i])`
  is `h * pulses + (δ − h) * noise` delayed by nothing but the causal taps (centre tap `c = (L−1)/2`).
-/
import Jb.Model.Vocoder
import Jb.Proofs.Cepstrum
import Mathlib.Algebra.Order.Field.Basic
import Mathlib.Algebra.BigOperators.Intervals
import Mathlib.Tactic.Linarith
import Mathlib.Tactic.Ring

set_option linter.unusedSectionVars false

namespace Jb

variable {K : Type} [Field K] [LinearOrder K] [IsStrictOrderedRing K] [Transc K] [Consts K]

/-- one sample of an overlap-add buffer: add `contrib`, emit slot 0, shift, clear the new last slot -/
def ringStep (ring contrib : List K) : K × List K :=
  let r := (ring.zip contrib).map fun (a, b) => a + b
  (r.getD 0 0, r.drop 1 ++ [0])

/-- run it over a sequence of contribution vectors -/
def ringRun : List K → List (List K) → List K
  | _, [] => []
  | ring, c :: cs => let r := ringStep ring c; r.1 :: ringRun r.2 cs

/-- **Overlap-add = convolution.** Starting from an empty buffer of length `L ≥ 1`, with every
    contribution of length `L`, output `n` is the sum over taps `i` of tap `i` of the contribution made
    `i` samples earlier. -/
theorem ringRun_conv (L : Nat) (hL : 1 ≤ L) (contribs : List (List K)) (hc : ∀ c ∈ contribs, c.length = L)
    (n : Nat) (hn : n < contribs.length) :
    (ringRun (List.replicate L 0) contribs).getD n 0 =
      (Finset.range L).sum fun i => if i ≤ n then (contribs.getD (n - i) []).getD i 0 else 0 := by
  sorry

/-- the contribution `excGet` makes in a voiced sample with noise `ν`, pulse `π` and low-pass `h` -/
def voicedContrib (L : Nat) (noise pulse : K) (h : List K) : List K :=
  (List.range L).map fun i => noise * ((if i = (L - 1) / 2 then 1 else 0) - h.getD i 0) + pulse * h.getD i 0

/-- … and in an unvoiced sample: the noise at the centre tap -/
def unvoicedContrib (L : Nat) (noise : K) : List K :=
  (List.range L).map fun i => if i = (L - 1) / 2 then noise else 0

/-- **`excGet` is one overlap-add step** (mixed-excitation branch: buffer length `L ≥ 1`, low-pass of the
    same length). -/
theorem excGet_is_ringStep (e : ExcSt K) (lpf : List K) (hL : 1 ≤ e.ring.length) (hlen : lpf.length = e.ring.length) :
    let noise := (nrandom e.random).1
    let L := e.ring.length
    let contrib :=
      if e.pitchOfCurr = 0 then unvoicedContrib L noise
      else voicedContrib L noise (pulseStep { e with random := (nrandom e.random).2 }).1 lpf
    (excGet e lpf).1 = (ringStep e.ring contrib).1 ∧ (excGet e lpf).2.ring = (ringStep e.ring contrib).2 := by
  sorry

end Jb
