/-
  The mixed-excitation ring buffer of `Jb/Model/Vocoder.lean` (`excGet`) is an overlap-add convolver:
  every sample adds a length-L contribution vector to the buffer, emits slot 0 and shifts. Hence the
  excitation is `y[n] = Σ_{i<L} contrib_{n−i}[i]`, which for `contrib_n[i] = pulse_n·h[i] + noise_n·(δ_{i,c} − h[i])`
  is `h * pulses + (δ − h) * noise` delayed by nothing but the causal taps (centre tap `c = (L−1)/2`).
-/
import Jb.Model.Vocoder
import Jb.Proofs.Cepstrum
import Mathlib.Algebra.Order.Field.Basic
import Mathlib.Algebra.BigOperators.Intervals
import Mathlib.Tactic.Linarith
import Mathlib.Tactic.Ring

set_option linter.unusedSectionVars false

namespace Jb

variable {K : Type} [Field K] [LinearOrder K] [IsStrictOrderedRing K] [Transc K] [Consts K]

/-- one sample of an overlap-add buffer: add `contrib`, emit slot 0, shift, clear the new last slot -/
def ringStep (ring contrib : List K) : K × List K :=
  let r := (ring.zip contrib).map fun (a, b) => a + b
  (r.getD 0 0, r.drop 1 ++ [0])

/-- run it over a sequence of contribution vectors -/
def ringRun : List K → List (List K) → List K
  | _, [] => []
  | ring, c :: cs => let r := ringStep ring c; r.1 :: ringRun r.2 cs

theorem getD_of_le (l : List K) (k : Nat) (h : l.length ≤ k) : l.getD k 0 = 0 := by
  simp [List.getD_eq_getElem?_getD, List.getElem?_eq_none h]

/-- entry `k` of the sum of two equally long lists -/
theorem zipAdd_getD (r c : List K) (h : r.length = c.length) (k : Nat) :
    ((r.zip c).map fun (a, b) => a + b).getD k 0 = r.getD k 0 + c.getD k 0 := by
  by_cases hk : k < r.length
  · have hk' : k < c.length := h ▸ hk
    simp [List.getD_eq_getElem?_getD, hk, hk']
  · have hk' : ¬ k < c.length := h ▸ hk
    simp only [not_lt] at hk hk'
    rw [getD_of_le, getD_of_le _ _ hk, getD_of_le _ _ hk']
    · simp
    · simp [← h, hk]

/-- entry `k` of the shifted buffer -/
theorem shift_getD (l : List K) (k : Nat) : (l.drop 1 ++ [0]).getD k 0 = l.getD (k + 1) 0 := by
  cases l with
  | nil => cases k <;> simp
  | cons a t =>
    simp only [List.drop_succ_cons, List.drop_zero, List.getD_cons_succ]
    by_cases hk : k < t.length
    · simp [List.getD_eq_getElem?_getD, List.getElem?_append_left hk]
    · simp only [not_lt] at hk
      rw [getD_of_le _ _ hk]
      simp only [List.getD_eq_getElem?_getD, List.getElem?_append_right hk]
      cases (k - t.length) <;> simp

theorem ringRun_conv_gen (L : Nat) (hL : 1 ≤ L) (contribs : List (List K))
    (hc : ∀ c ∈ contribs, c.length = L) (r0 : List K) (hr : r0.length = L)
    (n : Nat) (hn : n < contribs.length) :
    (ringRun r0 contribs).getD n 0 = r0.getD n 0 +
      (Finset.range L).sum fun i => if i ≤ n then (contribs.getD (n - i) []).getD i 0 else 0 := by
  induction contribs generalizing r0 n with
  | nil => simp at hn
  | cons c cs ih =>
    have hcl : c.length = L := hc c (by simp)
    have hcs : ∀ c' ∈ cs, c'.length = L := fun c' h => hc c' (by simp [h])
    cases n with
    | zero =>
      simp only [ringRun, ringStep, List.getD_cons_zero]
      rw [zipAdd_getD r0 c (by omega)]
      congr 1
      rw [Finset.sum_eq_single 0]
      · simp
      · intro b _ hb
        have : ¬ b ≤ 0 := by omega
        simp [this]
      · intro h; exfalso; apply h; simp; omega
    | succ n =>
      simp only [ringRun, List.getD_cons_succ]
      have hlen' : ((ringStep r0 c).2).length = L := by
        simp [ringStep]; omega
      rw [ih hcs _ hlen' n (by simpa using hn)]
      simp only [ringStep]
      rw [shift_getD, zipAdd_getD r0 c (by omega)]
      have hsplit : ∀ i ∈ Finset.range L,
          (if i ≤ n + 1 then ((c :: cs).getD (n + 1 - i) []).getD i 0 else 0) =
          (if i ≤ n then (cs.getD (n - i) []).getD i 0 else 0) +
            (if n + 1 = i then c.getD (n + 1) 0 else 0) := by
        intro i _
        by_cases h1 : i ≤ n
        · have h2 : n + 1 - i = (n - i) + 1 := by omega
          have h3 : ¬ n + 1 = i := by omega
          have h4 : i ≤ n + 1 := by omega
          simp [h1, h2, h3, h4]
        · by_cases h3 : n + 1 = i
          · subst h3; simp
          · have h4 : ¬ i ≤ n + 1 := by omega
            simp [h1, h3, h4]
      rw [Finset.sum_congr rfl hsplit, Finset.sum_add_distrib, Finset.sum_ite_eq]
      have hlast : (if n + 1 ∈ Finset.range L then c.getD (n + 1) 0 else 0) = c.getD (n + 1) 0 := by
        by_cases h : n + 1 < L
        · simp [h]
        · simp only [Finset.mem_range, h, if_false]
          rw [getD_of_le]; omega
      rw [hlast]; ring

/-- **Overlap-add = convolution.** Starting from an empty buffer of length `L ≥ 1`, with every
    contribution of length `L`, output `n` is the sum over taps `i` of tap `i` of the contribution made
    `i` samples earlier. -/
theorem ringRun_conv (L : Nat) (hL : 1 ≤ L) (contribs : List (List K)) (hc : ∀ c ∈ contribs, c.length = L)
    (n : Nat) (hn : n < contribs.length) :
    (ringRun (List.replicate L 0) contribs).getD n 0 =
      (Finset.range L).sum fun i => if i ≤ n then (contribs.getD (n - i) []).getD i 0 else 0 := by
  rw [ringRun_conv_gen L hL contribs hc _ (by simp) n hn]
  have : (List.replicate L (0 : K)).getD n 0 = 0 := by
    simp only [List.getD_eq_getElem?_getD, List.getElem?_replicate]
    split <;> rfl
  rw [this, zero_add]

/-- the contribution `excGet` makes in a voiced sample with noise `ν`, pulse `π` and low-pass `h` -/
def voicedContrib (L : Nat) (noise pulse : K) (h : List K) : List K :=
  (List.range L).map fun i => noise * ((if i = (L - 1) / 2 then 1 else 0) - h.getD i 0) + pulse * h.getD i 0

/-- … and in an unvoiced sample: the noise at the centre tap -/
def unvoicedContrib (L : Nat) (noise : K) : List K :=
  (List.range L).map fun i => if i = (L - 1) / 2 then noise else 0

theorem voiced_ring (ring lpf : List K) (hlen : lpf.length = ring.length) (noise pulse : K) :
    let n := ring.length
    let center := (n - 1) / 2
    let r1 := if isZeroS noise then ring else
      (List.range n).zip (ring.zip lpf) |>.map fun (i, (b, h)) =>
        if i = center then b + noise * (1 - h) else b + noise * (0 - h)
    let r1' := if r1.length = n then r1 else ring
    let r2 := if isZeroS pulse then r1' else (r1'.zip lpf).map fun (b, h) => b + pulse * h
    let r2' := if r2.length = n then r2 else r1'
    r2' = (ring.zip (voicedContrib n noise pulse lpf)).map fun (a, b) => a + b := by
  intro n center r1 r1' r2 r2'
  have hr1 : r1.length = n := by
    simp only [r1]; split <;> simp [hlen, n]
  have hr1' : r1' = r1 := if_pos hr1
  have hr2 : r2.length = n := by
    simp only [r2, hr1']; split <;> simp [hr1, hlen, n]
  have hr2' : r2' = r2 := if_pos hr2
  rw [hr2']
  have e1 : ∀ i (hi : i < n), r1[i]? =
      some (ring[i] + noise * ((if i = center then 1 else 0) - lpf[i]'(hlen ▸ hi))) := by
    intro i hi
    have hi' : i < lpf.length := hlen ▸ hi
    simp only [r1]
    split
    · rename_i hz
      rw [(isZeroS_iff noise).1 hz]; simp
    · simp [hi, hi', n]
      split <;> simp
  have e2 : ∀ i (hi : i < n), r2[i]? =
      some (ring[i] + noise * ((if i = center then 1 else 0) - lpf[i]'(hlen ▸ hi)) +
        pulse * lpf[i]'(hlen ▸ hi)) := by
    intro i hi
    have hi' : i < lpf.length := hlen ▸ hi
    simp only [r2, hr1']
    split
    · rename_i hz
      rw [(isZeroS_iff pulse).1 hz, e1 i hi]; simp
    · simp only [List.getElem?_map, Option.map_eq_some_iff, Prod.exists]
      exact ⟨_, _, by simp [List.getElem?_zip_eq_some, e1 i hi, hi'], rfl⟩
  apply List.ext_getElem?
  intro i
  by_cases hi : i < n
  · have hi' : i < lpf.length := hlen ▸ hi
    rw [e2 i hi]
    simp [voicedContrib, hi, hi', n]
    simp only [center, n]; ring
  · simp only [not_lt] at hi
    rw [List.getElem?_eq_none (by omega), List.getElem?_eq_none]
    simp [voicedContrib]; omega

theorem unvoiced_ring (ring : List K) (noise : K) :
    ring.set ((ring.length - 1) / 2) (ring.getD ((ring.length - 1) / 2) 0 + noise) =
      (ring.zip (unvoicedContrib ring.length noise)).map fun (a, b) => a + b := by
  apply List.ext_getElem?
  intro i
  by_cases hi : i < ring.length
  · simp only [unvoicedContrib, List.getElem?_set]
    by_cases hc : (ring.length - 1) / 2 = i
    · have hc' : (ring.length - 1) / 2 < ring.length := hc ▸ hi
      simp [hc, hi]
    · have hc' : ¬ i = (ring.length - 1) / 2 := fun h => hc h.symm
      simp [hc, hc', hi]
  · simp only [not_lt] at hi
    rw [List.getElem?_eq_none (by simpa using hi), List.getElem?_eq_none]
    simp [unvoicedContrib]; omega

/-- **`excGet` is one overlap-add step** (mixed-excitation branch: buffer length `L ≥ 1`, low-pass of the
    same length). -/
theorem excGet_is_ringStep (e : ExcSt K) (lpf : List K) (hL : 1 ≤ e.ring.length) (hlen : lpf.length = e.ring.length) :
    let noise := (nrandom e.random).1
    let L := e.ring.length
    let contrib :=
      if e.pitchOfCurr = 0 then unvoicedContrib L noise
      else voicedContrib L noise (pulseStep { e with random := (nrandom e.random).2 }).1 lpf
    (excGet e lpf).1 = (ringStep e.ring contrib).1 ∧ (excGet e lpf).2.ring = (ringStep e.ring contrib).2 := by
  intro noise L contrib
  have hn : e.ring.length > 0 := hL
  by_cases hp : e.pitchOfCurr = 0
  · have hz : isZeroS e.pitchOfCurr = true := (isZeroS_iff _).2 hp
    have hcontrib : contrib = unvoicedContrib L noise := if_pos hp
    have key := unvoiced_ring e.ring noise
    unfold excGet
    simp only [hn, if_true, hz]
    rw [hcontrib]
    simp only [ringStep]
    exact ⟨congrArg (fun r => r.getD 0 0) key, congrArg (fun r => r.drop 1 ++ [0]) key⟩
  · have hz : isZeroS e.pitchOfCurr = false := by
      rw [Bool.eq_false_iff]; intro h; exact hp ((isZeroS_iff _).1 h)
    have hcontrib : contrib = voicedContrib L noise (pulseStep { e with random := (nrandom e.random).2 }).1 lpf := if_neg hp
    have hps : (pulseStep { e with random := (nrandom e.random).2 }).2.ring = e.ring := by
      unfold pulseStep; simp only []; split <;> rfl
    have key := voiced_ring e.ring lpf hlen noise (pulseStep { e with random := (nrandom e.random).2 }).1
    unfold excGet
    simp only [hn, if_true, hz, Bool.false_eq_true, if_false, hps]
    rw [hcontrib]
    simp only [ringStep]
    exact ⟨congrArg (fun r => r.getD 0 0) key, congrArg (fun r => r.drop 1 ++ [0]) key⟩

end Jb
