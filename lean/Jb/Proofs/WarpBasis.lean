/-
  C06: the identity behind `mc2b`/`b2mc` at the level of signals.  With `Φ_m` the warped basis of the MLSA filter and
  `z̃⁻¹` the first-order all-pass,   b₀ + Σ_{m≥1} b_m Φ_m(z) = Σ_{m≥0} c_m z̃^{-m}   where `c = b2mc α b`
  (equivalently `b = mc2b α c`).  So the exponent that the MLSA filter approximates, `F₁ + F₂ = Σ_{m≥1} b_m Φ_m`, plus
  the log-gain `b₀`, is the mel-cepstral polynomial in the all-pass — which on the unit circle is `Σ c_m e^{-j m ω̃}`.
  Key step: `Φ₁ = z̃⁻¹ + α`, i.e. `onePoleRun α (delay1 u) = allpassRun α u + α·u`, and all operators are linear.
-/
import Jb.Proofs.Signal
import Jb.Proofs.Cepstrum

set_option linter.unusedSectionVars false

namespace Jb

variable {K : Type} [Field K] [LinearOrder K] [IsStrictOrderedRing K] [Transc K] [Consts K]

/-! ### list-level linear structure -/

/-- pointwise sum of two signals -/
def ladd (a b : List K) : List K := List.zipWith (· + ·) a b

/-- scalar multiple of a signal -/
def lsmul (c : K) (a : List K) : List K := a.map (c * ·)

theorem ladd_length (a b : List K) (h : a.length = b.length) : (ladd a b).length = a.length := by
  simp [ladd, h]

theorem lsmul_length (c : K) (a : List K) : (lsmul c a).length = a.length := by
  simp [lsmul]

theorem ladd_getD (a b : List K) (h : a.length = b.length) (n : Nat) :
    (ladd a b).getD n 0 = a.getD n 0 + b.getD n 0 := by
  induction a generalizing b n with
  | nil =>
    cases b with
    | nil => simp [ladd]
    | cons y b => simp at h
  | cons x a ih =>
    cases b with
    | nil => simp at h
    | cons y b =>
      have h' : a.length = b.length := by simpa using h
      cases n with
      | zero => simp [ladd]
      | succ n =>
        have := ih b h' n
        simpa [ladd] using this

theorem lsmul_getD (c : K) (a : List K) (n : Nat) : (lsmul c a).getD n 0 = c * a.getD n 0 := by
  induction a generalizing n with
  | nil => simp [lsmul]
  | cons x a ih =>
    cases n with
    | zero => simp [lsmul]
    | succ n =>
      have := ih n
      simpa [lsmul] using this

theorem allpassFrom_length (alpha up yp : K) (us : List K) :
    (allpassFrom alpha up yp us).length = us.length := by
  induction us generalizing up yp with
  | nil => rfl
  | cons u us ih => simp [allpassFrom, ih]

theorem allpassRun_length (alpha : K) (us : List K) : (allpassRun alpha us).length = us.length :=
  allpassFrom_length alpha 0 0 us

theorem allpassPow_length (alpha : K) (m : Nat) (us : List K) :
    (allpassPow alpha m us).length = us.length := by
  induction m with
  | zero => rfl
  | succ m ih =>
    show (allpassRun alpha (allpassPow alpha m us)).length = us.length
    rw [allpassRun_length, ih]

theorem allpassPow_succ (alpha : K) (m : Nat) (us : List K) :
    allpassPow alpha (m + 1) us = allpassRun alpha (allpassPow alpha m us) := rfl

theorem allpassFrom_add (alpha : K) (us vs : List K) (up1 up2 yp1 yp2 : K) :
    allpassFrom alpha (up1 + up2) (yp1 + yp2) (ladd us vs) =
      ladd (allpassFrom alpha up1 yp1 us) (allpassFrom alpha up2 yp2 vs) := by
  induction us generalizing vs up1 up2 yp1 yp2 with
  | nil => simp [ladd, allpassFrom]
  | cons u us ih =>
    cases vs with
    | nil => simp [ladd, allpassFrom]
    | cons v vs =>
      have h := ih vs u v (up1 - alpha * u + alpha * yp1) (up2 - alpha * v + alpha * yp2)
      simp only [ladd, List.zipWith_cons_cons, allpassFrom] at h ⊢
      rw [← h]
      have e1 : up1 + up2 - alpha * (u + v) + alpha * (yp1 + yp2) =
          up1 - alpha * u + alpha * yp1 + (up2 - alpha * v + alpha * yp2) := by ring
      rw [e1]

theorem allpassFrom_smul (alpha c : K) (us : List K) (up yp : K) :
    allpassFrom alpha (c * up) (c * yp) (lsmul c us) = lsmul c (allpassFrom alpha up yp us) := by
  induction us generalizing up yp with
  | nil => simp [lsmul, allpassFrom]
  | cons u us ih =>
    have h := ih u (up - alpha * u + alpha * yp)
    simp only [lsmul, List.map_cons, allpassFrom] at h ⊢
    rw [← h]
    have e1 : c * up - alpha * (c * u) + alpha * (c * yp) = c * (up - alpha * u + alpha * yp) := by ring
    rw [e1]

theorem allpassRun_add (alpha : K) (us vs : List K) :
    allpassRun alpha (ladd us vs) = ladd (allpassRun alpha us) (allpassRun alpha vs) := by
  have h := allpassFrom_add alpha us vs 0 0 0 0
  simpa [allpassRun] using h

theorem allpassRun_smul (alpha c : K) (us : List K) :
    allpassRun alpha (lsmul c us) = lsmul c (allpassRun alpha us) := by
  have h := allpassFrom_smul alpha c us 0 0
  simpa [allpassRun] using h

/-- the one-pole on the delayed signal is the all-pass plus `α` times the signal (from-state form) -/
theorem onePole_delay (alpha : K) (us : List K) (up yp w : K) (hw : w = yp + alpha * up) :
    onePoleFrom alpha w ((up :: us).take us.length) =
      ladd (allpassFrom alpha up yp us) (lsmul alpha us) := by
  induction us generalizing up yp w with
  | nil => simp [ladd, lsmul, onePoleFrom, allpassFrom]
  | cons u us ih =>
    have e : (1 - alpha * alpha) * up + alpha * w = up - alpha * u + alpha * yp + alpha * u := by
      rw [hw]; ring
    have h := ih u (up - alpha * u + alpha * yp) ((1 - alpha * alpha) * up + alpha * w) e
    simp only [ladd, lsmul] at h
    simp only [List.length_cons, List.take_succ_cons, onePoleFrom, allpassFrom, ladd, lsmul,
      List.map_cons, List.zipWith_cons_cons]
    rw [h, e]

theorem warpBasis_one (alpha : K) (us : List K) :
    warpBasis alpha us 1 = ladd (allpassRun alpha us) (lsmul alpha us) := by
  show onePoleFrom alpha 0 ((0 :: us).take us.length) = _
  exact onePole_delay alpha us 0 0 0 (by ring)

theorem warpBasis_succ_succ (alpha : K) (us : List K) (m : Nat) :
    warpBasis alpha us (m + 2) = allpassRun alpha (warpBasis alpha us (m + 1)) := rfl

/-- `Φ_{m+1} = z̃^{-(m+1)} + α z̃^{-m}` -/
theorem warpBasis_succ (alpha : K) (us : List K) (m : Nat) :
    warpBasis alpha us (m + 1) =
      ladd (allpassPow alpha (m + 1) us) (lsmul alpha (allpassPow alpha m us)) := by
  induction m with
  | zero => exact warpBasis_one alpha us
  | succ m ih =>
    rw [warpBasis_succ_succ, ih, allpassRun_add, allpassRun_smul]
    rfl

theorem warpBasis_succ_getD (alpha : K) (us : List K) (m n : Nat) :
    (warpBasis alpha us (m + 1)).getD n 0 =
      (allpassPow alpha (m + 1) us).getD n 0 + alpha * (allpassPow alpha m us).getD n 0 := by
  rw [warpBasis_succ, ladd_getD, lsmul_getD]
  rw [lsmul_length, allpassPow_length, allpassPow_length]

/-- the telescoping sum, abstractly -/
theorem warp_sum_aux (alpha : K) (b A : Nat → K) (N : Nat) :
    b 0 * A 0 + (Finset.Ico 1 (N + 1)).sum (fun m => b m * (A m + alpha * A (m - 1))) =
      (Finset.range (N + 1)).sum (fun m => (b m + alpha * b (m + 1)) * A m) - alpha * b (N + 1) * A N := by
  induction N with
  | zero => simp; ring
  | succ N ih =>
    rw [Finset.sum_Ico_succ_top (by omega), Finset.sum_range_succ _ (N + 1), ← add_assoc, ih]
    simp only [Nat.add_sub_cancel]
    ring

/-- `Φ₁ = z̃⁻¹ + α` -/
theorem phi1_eq_allpass_add (alpha : K) (us : List K) (n : Nat) :
    (warpBasis alpha us 1).getD n 0 = (allpassRun alpha us).getD n 0 + alpha * us.getD n 0 :=
  warpBasis_succ_getD alpha us 0 n

-- `hn` is not needed by the proof (both sides vanish for `n ≥ us.length`); kept as part of the stated theorem
set_option linter.unusedVariables false in
/-- **`b₀ + Σ_{m≥1} b_m Φ_m = Σ_m c_m z̃^{-m}`, `c = b2mc α b`** -/
theorem warp_basis_identity (alpha : K) (b : List K) (us : List K) (n : Nat) (hn : n < us.length) :
    b.getD 0 0 * us.getD n 0 +
        (Finset.Ico 1 b.length).sum (fun m => b.getD m 0 * (warpBasis alpha us m).getD n 0) =
      (Finset.range b.length).sum fun m => (b2mc alpha b).getD m 0 * (allpassPow alpha m us).getD n 0 := by
  cases hL : b.length with
  | zero =>
    have : b = [] := List.eq_nil_of_length_eq_zero hL
    subst this
    simp
  | succ N =>
    have h := warp_sum_aux alpha (fun m => b.getD m 0) (fun m => (allpassPow alpha m us).getD n 0) N
    have hb : b.getD (N + 1) 0 = 0 := by
      rw [List.getD_eq_getElem?_getD, List.getElem?_eq_none (by omega)]; rfl
    simp only [hb, mul_zero, zero_mul, sub_zero] at h
    have e0 : (allpassPow alpha 0 us).getD n 0 = us.getD n 0 := rfl
    rw [e0] at h
    rw [← (Finset.sum_congr rfl (fun m hm => by
        have hm' : m < b.length := by rw [hL]; exact Finset.mem_range.1 hm
        rw [b2mc_getD alpha b m hm']) :
      (Finset.range (N + 1)).sum (fun m => (b2mc alpha b).getD m 0 * (allpassPow alpha m us).getD n 0) = _)] at h
    rw [← h]
    congr 1
    apply Finset.sum_congr rfl
    intro m hm
    have hm1 : 1 ≤ m := (Finset.mem_Ico.1 hm).1
    obtain ⟨k, rfl⟩ : ∃ k, m = k + 1 := ⟨m - 1, by omega⟩
    rw [warpBasis_succ_getD]
    simp only [Nat.add_sub_cancel]

/-- the same, read from the mel-cepstrum: `b = mc2b α c` -/
theorem warp_basis_identity_mc2b (alpha : K) (c : List K) (us : List K) (n : Nat) (hn : n < us.length) :
    (mc2b alpha c).getD 0 0 * us.getD n 0 +
        (Finset.Ico 1 c.length).sum (fun m => (mc2b alpha c).getD m 0 * (warpBasis alpha us m).getD n 0) =
      (Finset.range c.length).sum fun m => c.getD m 0 * (allpassPow alpha m us).getD n 0 := by
  have h := warp_basis_identity alpha (mc2b alpha c) us n hn
  rwa [mc2b_length, b2mc_mc2b] at h

end Jb
