/-
  Algebra of the vocoder's coefficient transforms (`Jb/Model/Vocoder.lean`) over a linearly ordered field.
-/
import Jb.Model.Vocoder
import Mathlib.Algebra.Order.Field.Basic
import Mathlib.Tactic.Linarith
import Mathlib.Tactic.Ring
import Mathlib.Tactic.FieldSimp

set_option linter.unusedSectionVars false

namespace Jb

variable {K : Type} [Field K] [LinearOrder K] [IsStrictOrderedRing K] [Transc K] [Consts K]

theorem isZeroS_iff (x : K) : isZeroS x = true ↔ x = 0 := by
  sorry

/-- `b2mc` inverts `mc2b` (any α, any length). -/
theorem b2mc_mc2b (alpha : K) (c : List K) : b2mc alpha (mc2b alpha c) = c := by
  sorry

/-- `mc2b` inverts `b2mc`. -/
theorem mc2b_b2mc (alpha : K) (b : List K) : mc2b alpha (b2mc alpha b) = b := by
  sorry

theorem mc2b_length (alpha : K) (c : List K) : (mc2b alpha c).length = c.length := by
  sorry

theorem b2mc_length (alpha : K) (b : List K) : (b2mc alpha b).length = b.length := by
  sorry

/-- entry-wise: `b2mc` is `c[k] = b[k] + α b[k+1]` (with `b[len] = 0`) -/
theorem b2mc_getD (alpha : K) (b : List K) (k : Nat) (hk : k < b.length) :
    (b2mc alpha b).getD k 0 = b.getD k 0 + alpha * b.getD (k + 1) 0 := by
  sorry

/-- With the repaired input order, `freqt` at `α = 0` and equal order is the identity. -/
theorem freqt_zero_id (c : List K) (hc : c ≠ []) : freqt true c (c.length - 1) 0 = c := by
  sorry

/-- All-zero MLSA coefficients: the filter is the identity on the signal, in every state. -/
theorem mlsaDf_zero (st : MlsaSt K) (x alpha : K) (c : List K) (hc : ∀ y ∈ c, y = 0) :
    (mlsaDf st x alpha c).1 = x := by
  sorry

/-- The same transformation with equal source and target γ is truncation (the symmetric sums cancel). -/
theorem gc2gc_same_gamma (c : List K) (g : K) (m : Nat) (hm : m < c.length) :
    gc2gc c g m g = c.take (m + 1) := by
  sorry

/-- `ignorm` inverts `gnorm` when the power function does (`(k^(1/γ))^γ = k`) and `k ≠ 0`. -/
theorem ignorm_gnorm (gamma : K) (hg : gamma ≠ 0) (c0 : K) (rest : List K)
    (hk : 1 + gamma * c0 ≠ 0)
    (hpow : Transc.pow (Transc.pow (1 + gamma * c0) (1 / gamma)) gamma = 1 + gamma * c0) :
    ignorm gamma (gnorm gamma (c0 :: rest)) = c0 :: rest := by
  sorry

end Jb
