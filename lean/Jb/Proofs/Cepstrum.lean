/-
  Algebra of the vocoder's coefficient transforms (`Jb/Model/Vocoder.lean`) over a linearly ordered field.
-/
import Jb.Model.Vocoder
import Mathlib.Algebra.Order.Field.Basic
import Mathlib.Algebra.BigOperators.Intervals
import Mathlib.Tactic.Linarith
import Mathlib.Tactic.Ring
import Mathlib.Tactic.FieldSimp

set_option linter.unusedSectionVars false

namespace Jb

variable {K : Type} [Field K] [LinearOrder K] [IsStrictOrderedRing K] [Transc K] [Consts K]

/-! ### `isZeroS`, `mc2b`, `b2mc` -/

theorem isZeroS_iff (x : K) : isZeroS x = true ↔ x = 0 := by
  unfold isZeroS
  simp only [Bool.and_eq_true, Bool.not_eq_true', decide_eq_false_iff_not, not_lt, decide_eq_true_eq]
  constructor
  · rintro ⟨⟨h1, h2⟩, _⟩; exact le_antisymm h2 h1
  · rintro rfl; exact ⟨⟨le_refl _, le_refl _⟩, le_refl _⟩

theorem mc2b_nil (alpha : K) : mc2b alpha [] = [] := by
  unfold mc2b; split <;> rfl

theorem mc2b_cons (alpha : K) (c : K) (cs : List K) :
    mc2b alpha (c :: cs) =
      match mc2b alpha cs with
      | [] => [c]
      | b :: _ => (c - alpha * b) :: mc2b alpha cs := by
  unfold mc2b
  by_cases h : isZeroS alpha = true
  · have h0 : alpha = 0 := (isZeroS_iff alpha).1 h
    subst h0
    simp only [h, if_true]
    cases cs with
    | nil => rfl
    | cons b t => simp
  · simp only [h, List.foldr_cons]
    rfl

theorem b2mc_length (alpha : K) (b : List K) : (b2mc alpha b).length = b.length := by
  fun_induction b2mc alpha b with
  | case1 => rfl
  | case2 => rfl
  | case3 b b' rest ih => simp [ih]

theorem b2mc_mc2b (alpha : K) (c : List K) : b2mc alpha (mc2b alpha c) = c := by
  induction c with
  | nil => rw [mc2b_nil]; rfl
  | cons c cs ih =>
    rw [mc2b_cons]
    cases h : mc2b alpha cs with
    | nil =>
      rw [h] at ih
      simp only [b2mc] at ih ⊢
      rw [← ih]
    | cons b t =>
      rw [h] at ih
      simp only [b2mc, ih]
      congr 1
      ring

theorem mc2b_b2mc (alpha : K) (b : List K) : mc2b alpha (b2mc alpha b) = b := by
  fun_induction b2mc alpha b with
  | case1 => exact mc2b_nil alpha
  | case2 b => rw [mc2b_cons, mc2b_nil]
  | case3 b b' rest ih =>
    rw [mc2b_cons, ih]
    simp

theorem mc2b_length (alpha : K) (c : List K) : (mc2b alpha c).length = c.length := by
  have h := congrArg List.length (b2mc_mc2b alpha c)
  rwa [b2mc_length] at h

theorem b2mc_getD (alpha : K) (b : List K) (k : Nat) (hk : k < b.length) :
    (b2mc alpha b).getD k 0 = b.getD k 0 + alpha * b.getD (k + 1) 0 := by
  fun_induction b2mc alpha b generalizing k with
  | case1 => simp at hk
  | case2 b =>
    have : k = 0 := by simpa using hk
    subst this; simp
  | case3 b b' rest ih =>
    cases k with
    | zero => simp
    | succ k =>
      have hk' : k < (b' :: rest).length := by simpa using hk
      have := ih k hk'
      simpa using this

/-! ### `freqt` at `α = 0` -/

theorem freqtStep_go_zero (po pn : K) (l : List K) :
    freqtStep.go (0 : K) po pn l = (po :: l).take l.length := by
  induction l generalizing po pn with
  | nil => rfl
  | cons gj tl ih =>
    simp only [freqtStep.go, ih, List.length_cons, List.take_succ_cons]
    congr 1
    ring

theorem freqtStep_zero (x : K) (g : List K) :
    freqtStep (0 : K) 1 x g = (x :: g).take g.length := by
  match g with
  | [] => rfl
  | [g0] => simp [freqtStep]
  | g0 :: g1 :: rest2 =>
    simp only [freqtStep, freqtStep_go_zero, List.length_cons, List.take_succ_cons]
    congr 1
    · ring
    · congr 1; ring

private theorem take_append_take (a b : List K) (n : Nat) :
    (a ++ b.take n).take n = (a ++ b).take n := by
  rw [List.take_append, List.take_append, List.take_take]
  congr 2
  omega

theorem freqt_fold_zero (xs g : List K) :
    xs.foldl (fun g x => freqtStep (0 : K) 1 x g) g = (xs.reverse ++ g).take g.length := by
  induction xs generalizing g with
  | nil => simp
  | cons x xs ih =>
    rw [List.foldl_cons, ih, freqtStep_zero]
    have hl : ((x :: g).take g.length).length = g.length := by simp
    rw [hl, take_append_take]
    simp

theorem freqt_zero_id (c : List K) (hc : c ≠ []) : freqt true c (c.length - 1) 0 = c := by
  unfold freqt
  have h1 : (1 : K) - 0 * 0 = 1 := by ring
  simp only [h1, if_true]
  rw [freqt_fold_zero]
  have hl : c.length - 1 + 1 = c.length := by
    have : 0 < c.length := List.length_pos_of_ne_nil hc
    omega
  simp [hl]

/-! ### MLSA filter with all-zero coefficients -/

private theorem getD_zero_of_all_zero (c : List K) (hc : ∀ y ∈ c, y = 0) (i : Nat) : c.getD i 0 = 0 := by
  rw [List.getD_eq_getElem?_getD]
  cases h : c[i]? with
  | none => rfl
  | some y => exact hc y (List.mem_of_getElem? h)

/-- a fold over `(x, out, state)` whose step leaves `x` and `out = 0` fixed -/
private theorem fold_keep {S : Type} (F : K × K × S → Nat → K × K × S)
    (hF : ∀ x s i, (F (x, 0, s) i).1 = x ∧ (F (x, 0, s) i).2.1 = 0) (x : K) :
    ∀ (is : List Nat) (s : S),
      (is.foldl F (x, 0, s)).1 = x ∧ (is.foldl F (x, 0, s)).2.1 = 0 := by
  intro is
  induction is with
  | nil => intro s; exact ⟨rfl, rfl⟩
  | cons i is ih =>
    intro s
    rw [List.foldl_cons]
    obtain ⟨h1, h2⟩ := hF x s i
    have : F (x, 0, s) i = (x, 0, (F (x, 0, s) i).2.2) := by
      apply Prod.ext h1
      exact Prod.ext h2 rfl
    rw [this]
    exact ih _

theorem mlsaDf1_zero (st : MlsaSt K) (x alpha : K) (c : List K) (hc : ∀ y ∈ c, y = 0) :
    (mlsaDf1 st x alpha c).1 = x := by
  unfold mlsaDf1
  have h1 : c.getD 1 0 = 0 := getD_zero_of_all_zero c hc 1
  simp only [h1]
  have := fold_keep (S := List K × List K) (fun (acc : K × K × List K × List K) i =>
      let (x, out, d11, d12) := acc
      let n11 := (1 - alpha * alpha) * st.d12.getD (i - 1) 0 + alpha * d11.getD i 0
      let n12 := n11 * 0
      let v := n12 * (padeCoef : List K).getD i 0
      (if i % 2 = 1 then x + v else x + -v, out + v, d11.set i n11, d12.set i n12))
    (by intro x s i; obtain ⟨a, b⟩ := s; simp) x [5, 4, 3, 2, 1] (st.d11, st.d12)
  obtain ⟨e1, e2⟩ := this
  simp only [] at e1 e2 ⊢
  rw [e1, e2]; simp

private theorem foldl_zip_zero (l : List (K × K)) (hl : ∀ p ∈ l, p.2 = 0) (a : K) :
    l.foldl (fun acc (p : K × K) => acc + p.1 * p.2) a = a := by
  induction l generalizing a with
  | nil => rfl
  | cons p l ih =>
    rw [List.foldl_cons, hl p (List.mem_cons_self), mul_zero, add_zero]
    exact ih (fun q hq => hl q (List.mem_cons_of_mem _ hq)) a

theorem fir_zero (d : List K) (x alpha : K) (c : List K) (hc : ∀ y ∈ c, y = 0) :
    (fir d x alpha c).1 = 0 := by
  unfold fir
  cases d with
  | nil => rfl
  | cons d0 dt =>
    simp only []
    apply foldl_zip_zero
    intro p hp
    exact hc p.2 (List.of_mem_zip (List.mem_of_mem_drop hp)).2

theorem mlsaDf2_zero (st : MlsaSt K) (x alpha : K) (c : List K) (hc : ∀ y ∈ c, y = 0) :
    (mlsaDf2 st x alpha c).1 = x := by
  unfold mlsaDf2
  have := fold_keep (S := List (List K) × List K)
    (fun (acc : K × K × List (List K) × List K) i =>
      let (x, out, d21, d22) := acc
      let (y, dn) := fir (d21.getD (i - 1) []) (st.d22.getD (i - 1) 0) alpha c
      let v := y * (padeCoef : List K).getD i 0
      (if i % 2 = 1 then x + v else x + -v, out + v, d21.set (i - 1) dn, d22.set i y))
    (by
      intro x s i; obtain ⟨a, b⟩ := s
      have hf := fir_zero (a.getD (i - 1) []) (st.d22.getD (i - 1) 0) alpha c hc
      simp only [hf, zero_mul, add_zero, neg_zero, ite_self, and_self]) x [5, 4, 3, 2, 1] (st.d21, st.d22)
  obtain ⟨e1, e2⟩ := this
  simp only [] at e1 e2 ⊢
  rw [e1, e2]; simp

theorem mlsaDf_zero (st : MlsaSt K) (x alpha : K) (c : List K) (hc : ∀ y ∈ c, y = 0) :
    (mlsaDf st x alpha c).1 = x := by
  unfold mlsaDf
  simp only []
  rw [mlsaDf2_zero _ _ _ _ hc, mlsaDf1_zero _ _ _ _ hc]

/-! ### `gc2gc` with equal γ -/

private theorem pair_fold_range (f g : Nat → K) (a b : K) (n : Nat) :
    (List.range n).foldl (fun (acc : K × K) k0 => (acc.1 + f k0, acc.2 + g k0)) (a, b) =
      (a + ∑ k ∈ Finset.range n, f k, b + ∑ k ∈ Finset.range n, g k) := by
  induction n with
  | zero => simp
  | succ n ih =>
    rw [List.range_succ, List.foldl_append, ih, Finset.sum_range_succ, Finset.sum_range_succ]
    simp [add_assoc]

private theorem getD_take_of_lt (c : List K) (n j : Nat) (h : j < n) : (c.take n).getD j 0 = c.getD j 0 := by
  simp [List.getD_eq_getElem?_getD, h]

theorem gc2gc_sums_eq (c : List K) (i : Nat) :
    ∑ k0 ∈ Finset.range i, ((i + 1 - (k0 + 1) : Nat) : K) * (c.getD (k0 + 1) 0 * (c.take (i + 1)).getD (i + 1 - (k0 + 1)) 0) =
    ∑ k0 ∈ Finset.range i, ((k0 + 1 : Nat) : K) * (c.getD (k0 + 1) 0 * (c.take (i + 1)).getD (i + 1 - (k0 + 1)) 0) := by
  rw [← Finset.sum_range_reflect]
  apply Finset.sum_congr rfl
  intro j hj
  have hj' : j < i := Finset.mem_range.1 hj
  have e1 : i + 1 - (i - 1 - j + 1) = j + 1 := by omega
  have e2 : i - 1 - j + 1 = i + 1 - (j + 1) := by omega
  rw [e1, e2, getD_take_of_lt c (i + 1) (j + 1) (by omega),
    getD_take_of_lt c (i + 1) (i + 1 - (j + 1)) (by omega)]
  ring

theorem gc2gc_step (c : List K) (g : K) (i : Nat) (hi : i + 1 < c.length) :
    (fun (c2 : List K) i0 =>
      let i := i0 + 1
      let (ss1, ss2) := (List.range (min c.length i - 1)).foldl (fun (acc : K × K) k0 =>
          let k := k0 + 1
          let mk := i - k
          let cc := c.getD k 0 * c2.getD mk 0
          (acc.1 + (mk : K) * cc, acc.2 + (k : K) * cc)) (0, 0)
      let t := (g * ss2 - g * ss1) / (i : K)
      c2 ++ [if i < c.length then c.getD i 0 + t else t]) (c.take (i + 1)) i = c.take (i + 2) := by
  have hmin : min c.length (i + 1) - 1 = i := by omega
  simp only [hmin, hi, if_true]
  rw [pair_fold_range (fun k0 => ((i + 1 - (k0 + 1) : Nat) : K) * (c.getD (k0 + 1) 0 * (c.take (i + 1)).getD (i + 1 - (k0 + 1)) 0))
    (fun k0 => ((k0 + 1 : Nat) : K) * (c.getD (k0 + 1) 0 * (c.take (i + 1)).getD (i + 1 - (k0 + 1)) 0))]
  simp only [gc2gc_sums_eq, zero_add, sub_self, zero_div, add_zero]
  rw [List.take_add_one (i := i + 1)]
  simp [List.getD_eq_getElem?_getD, hi]

theorem gc2gc_fold (c : List K) (g : K) (i : Nat) (hi : i < c.length) :
    (List.range i).foldl (fun (c2 : List K) i0 =>
      let i := i0 + 1
      let (ss1, ss2) := (List.range (min c.length i - 1)).foldl (fun (acc : K × K) k0 =>
          let k := k0 + 1
          let mk := i - k
          let cc := c.getD k 0 * c2.getD mk 0
          (acc.1 + (mk : K) * cc, acc.2 + (k : K) * cc)) (0, 0)
      let t := (g * ss2 - g * ss1) / (i : K)
      c2 ++ [if i < c.length then c.getD i 0 + t else t]) [c.getD 0 0] = c.take (i + 1) := by
  induction i with
  | zero =>
    cases c with
    | nil => simp at hi
    | cons a t => simp
  | succ i ih =>
    rw [List.range_succ, List.foldl_append, ih (by omega), List.foldl_cons, List.foldl_nil]
    exact gc2gc_step c g i hi

theorem gc2gc_same_gamma (c : List K) (g : K) (m : Nat) (hm : m < c.length) :
    gc2gc c g m g = c.take (m + 1) := by
  unfold gc2gc
  exact gc2gc_fold c g m hm

/-! ### `gnorm` / `ignorm` -/

theorem ignorm_gnorm (gamma : K) (hg : gamma ≠ 0) (c0 : K) (rest : List K)
    (hk : 1 + gamma * c0 ≠ 0)
    (hpow : Transc.pow (Transc.pow (1 + gamma * c0) (1 / gamma)) gamma = 1 + gamma * c0) :
    ignorm gamma (gnorm gamma (c0 :: rest)) = c0 :: rest := by
  have hz : isZeroS gamma = false := by
    rw [Bool.eq_false_iff]; intro h; exact hg ((isZeroS_iff gamma).1 h)
  simp only [gnorm, ignorm, hz, Bool.not_false, if_true, hpow, List.map_map]
  congr 1
  · field_simp; ring
  · conv_rhs => rw [← List.map_id rest]
    apply List.map_congr_left
    intro x _
    simp only [Function.comp, id]
    exact div_mul_cancel₀ x hk

end Jb
