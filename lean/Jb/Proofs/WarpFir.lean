/-
  C06: the warped FIR `Df2::fir` is `Σ_{i≥2} c_i · (cell i of the warped delay line)`, and cell `i` is the first-order
  section followed by `i − 1` all-pass sections: in z-transforms `(1−α²)/(1−αz⁻¹) · z̃^{-(i−1)}`.
  (The code computes the cells with a carry, `dnew[i] = α·d[i] + carry`, `carry' = (1−α²)·d[i] − α·carry`;
  the invariant is `carry_{i+1}[n] = D_i[n−1] − α·D_i[n]`.)
-/
import Jb.Proofs.Signal

set_option linter.unusedSectionVars false

namespace Jb

variable {K : Type} [Field K] [LinearOrder K] [IsStrictOrderedRing K] [Transc K] [Consts K]

/-! ### the carry fold of `fir` as a plain recursion -/

/-- the new cells computed by the fold of `fir`, carry `cr` -/
def firCells (alpha : K) : K → List K → List K
  | _, [] => []
  | cr, di :: l => (alpha * di + cr) :: firCells alpha ((1 - alpha * alpha) * di - alpha * cr) l

theorem fir_fold_cells (alpha : K) (l : List K) (acc : List K × K) :
    (l.foldl (fun (acc : List K × K) di =>
        (acc.1 ++ [alpha * di + acc.2], (1 - alpha * alpha) * di - alpha * acc.2)) acc).1
      = acc.1 ++ firCells alpha acc.2 l := by
  induction l generalizing acc with
  | nil => simp [firCells]
  | cons di l ih => simp only [List.foldl_cons, ih, firCells, List.append_assoc, List.cons_append,
      List.nil_append]

theorem fir_snd (d0 : K) (dt : List K) (x alpha : K) (c : List K) :
    (fir (d0 :: dt) x alpha c).2 = firCells alpha 0 (x :: dt) := by
  simp only [fir]
  rw [fir_fold_cells]
  simp

theorem firCells_getD_succ (alpha cr : K) (l : List K) (j : Nat) (h : j + 1 < l.length) :
    (firCells alpha cr l).getD (j + 1) 0 =
      alpha * l.getD (j + 1) 0 + l.getD j 0 - alpha * (firCells alpha cr l).getD j 0 := by
  induction l generalizing cr j with
  | nil => simp at h
  | cons a l ih =>
    cases j with
    | zero =>
      cases l with
      | nil => simp at h
      | cons b l =>
        simp only [firCells, List.getD_cons_succ, List.getD_cons_zero]
        ring
    | succ j =>
      simp only [firCells, List.getD_cons_succ]
      exact ih _ j (by simpa using h)

theorem fir_getD_one (d : List K) (x alpha : K) (c : List K) (h : 1 < d.length) :
    (fir d x alpha c).2.getD 1 0 = (1 - alpha * alpha) * x + alpha * d.getD 1 0 := by
  cases d with
  | nil => simp at h
  | cons d0 dt =>
    rw [fir_snd, firCells_getD_succ _ _ _ 0 (by simpa using h)]
    simp only [firCells, List.getD_cons_succ, List.getD_cons_zero]
    ring

theorem fir_getD_succ (d : List K) (x alpha : K) (c : List K) (k : Nat) (h : k + 2 < d.length) :
    (fir d x alpha c).2.getD (k + 2) 0 =
      d.getD (k + 1) 0 - alpha * (fir d x alpha c).2.getD (k + 1) 0 + alpha * d.getD (k + 2) 0 := by
  cases d with
  | nil => simp at h
  | cons d0 dt =>
    rw [fir_snd, firCells_getD_succ _ _ _ (k + 1) (by simp only [List.length_cons] at h ⊢; omega)]
    simp only [List.getD_cons_succ]
    ring

/-! ### the dot product of `fir` as a `Finset` sum -/

theorem fir_dot_sum (l c : List K) (k : Nat) (a : K) :
    ((l.zip c).drop k).foldl (fun acc (p : K × K) => acc + p.1 * p.2) a
      = a + (Finset.Ico k (min l.length c.length)).sum fun i => c.getD i 0 * l.getD i 0 := by
  induction l generalizing c k a with
  | nil => simp
  | cons x l ih =>
    cases c with
    | nil => simp
    | cons c0 c =>
      have hmin : min (x :: l).length (c0 :: c).length = min l.length c.length + 1 := by
        simp only [List.length_cons]; omega
      rw [hmin]
      cases k with
      | zero =>
        simp only [List.zip_cons_cons, List.drop_zero, List.foldl_cons]
        have := ih c 0 (a + x * c0)
        simp only [List.drop_zero] at this
        rw [this]
        simp only [Nat.Ico_zero_eq_range]
        rw [Finset.sum_range_succ']
        simp only [List.getD_cons_succ, List.getD_cons_zero]
        ring
      | succ k =>
        simp only [List.zip_cons_cons, List.drop_succ_cons]
        rw [ih c k a, ← Finset.sum_Ico_add' _ k _ 1]
        simp only [List.getD_cons_succ]

theorem fir_fst (d : List K) (x alpha : K) (c : List K) :
    (fir d x alpha c).1 =
      (Finset.Ico 2 (min d.length c.length)).sum fun i => c.getD i 0 * (fir d x alpha c).2.getD i 0 := by
  cases d with
  | nil => simp [fir]
  | cons d0 dt =>
    have h := fir_dot_sum (fir (d0 :: dt) x alpha c).2 c 2 0
    rw [zero_add, fir_len] at h
    rw [← h]
    rfl

/-! ### the warped chain from a general delay-line state -/

/-- cell `k` of the delay line fed with `us`, when the previous values of the cells are `d` -/
def chainFrom (alpha : K) (d : List K) (us : List K) : Nat → List K
  | 0 => us
  | 1 => onePoleFrom alpha (d.getD 1 0) us
  | k + 2 => allpassFrom alpha (d.getD (k + 1) 0) (d.getD (k + 2) 0) (chainFrom alpha d us (k + 1))

theorem chainFrom_cons (alpha : K) (c d : List K) (x : K) (xs : List K) (k : Nat) (h : k + 1 < d.length) :
    chainFrom alpha d (x :: xs) (k + 1) =
      (fir d x alpha c).2.getD (k + 1) 0 :: chainFrom alpha (fir d x alpha c).2 xs (k + 1) := by
  induction k with
  | zero =>
    simp only [Nat.zero_add, chainFrom, onePoleFrom]
    rw [fir_getD_one d x alpha c h]
  | succ k ih =>
    have ih' := ih (by omega)
    show allpassFrom alpha (d.getD (k + 1) 0) (d.getD (k + 2) 0) (chainFrom alpha d (x :: xs) (k + 1)) =
      (fir d x alpha c).2.getD (k + 2) 0 ::
        allpassFrom alpha ((fir d x alpha c).2.getD (k + 1) 0) ((fir d x alpha c).2.getD (k + 2) 0)
          (chainFrom alpha (fir d x alpha c).2 xs (k + 1))
    rw [ih', allpassFrom, fir_getD_succ d x alpha c k h]

theorem getD_replicate_zero (m i : Nat) : (List.replicate m (0 : K)).getD i 0 = 0 := by
  simp only [List.getD_eq_getElem?_getD, List.getElem?_replicate]
  split <;> rfl

theorem chainFrom_zero (alpha : K) (m : Nat) (us : List K) :
    ∀ i, chainFrom alpha (List.replicate m 0) us i = warpChain alpha us i
  | 0 => rfl
  | 1 => by simp only [chainFrom, warpChain, onePoleRun, getD_replicate_zero]
  | k + 2 => by
    simp only [chainFrom, warpChain, allpassRun, getD_replicate_zero, chainFrom_zero alpha m us (k + 1)]

/-- the invariant: from any delay-line state the output is the `c`-combination of the cells -/
theorem firRun_chain (alpha : K) (c d us : List K) (n : Nat) (hn : n < us.length) :
    (firRun alpha c d us).getD n 0 =
      (Finset.Ico 2 (min d.length c.length)).sum fun i => c.getD i 0 * (chainFrom alpha d us i).getD n 0 := by
  induction us generalizing d n with
  | nil => simp at hn
  | cons x xs ih =>
    have hc : ∀ i ∈ Finset.Ico 2 (min d.length c.length), chainFrom alpha d (x :: xs) i =
        (fir d x alpha c).2.getD i 0 :: chainFrom alpha (fir d x alpha c).2 xs i := by
      intro i hi
      rw [Finset.mem_Ico] at hi
      obtain ⟨k, rfl⟩ : ∃ k, i = k + 1 := ⟨i - 1, by omega⟩
      exact chainFrom_cons alpha c d x xs k (by omega)
    cases n with
    | zero =>
      simp only [firRun, List.getD_cons_zero]
      rw [fir_fst]
      refine Finset.sum_congr rfl fun i hi => ?_
      rw [hc i hi, List.getD_cons_zero]
    | succ n =>
      simp only [firRun, List.getD_cons_succ]
      rw [ih _ n (by simpa using hn), fir_len]
      refine Finset.sum_congr rfl fun i hi => ?_
      rw [hc i hi, List.getD_cons_succ]

theorem firRun_length (alpha : K) (c d us : List K) : (firRun alpha c d us).length = us.length := by
  induction us generalizing d with
  | nil => simp [firRun]
  | cons x xs ih => simp [firRun, ih]

/-- **`fir` = `Σ_{i=2}^{…} c_i · warpChain i`** (delay line of `nmcp` cells from rest; the sum stops at the shorter of the
    delay line and the coefficient vector, as the code's `zip` does) -/
theorem firRun_warp (alpha : K) (c : List K) (nmcp : Nat) (us : List K) (n : Nat) (hn : n < us.length) :
    (firRun alpha c (List.replicate nmcp 0) us).getD n 0 =
      (Finset.Ico 2 (min nmcp c.length)).sum fun i => c.getD i 0 * (warpChain alpha us i).getD n 0 := by
  rw [firRun_chain alpha c _ us n hn, List.length_replicate]
  refine Finset.sum_congr rfl fun i _ => ?_
  rw [chainFrom_zero]

end Jb
