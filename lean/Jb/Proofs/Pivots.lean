/-
  Positive definiteness ⇒ every pivot of the banded LDLᵀ factorisation is positive
  (discharges the `hpiv` hypothesis of `ldl_solves` for the MLPG system, whose matrix W'U⁻¹W is
  positive definite as soon as the static precisions are positive).
-/
import Jb.Proofs.Ldl

set_option linter.unusedSectionVars false

namespace Jb

variable {K : Type} [Field K] [LinearOrder K] [IsStrictOrderedRing K]

/-- the quadratic form `xᵀ A x` of the symmetric band matrix stored in `rows` -/
def bandQuad (w : Nat) (rows : List (List K)) (x : List K) : K :=
  (Finset.range rows.length).sum fun t => x.getD t 0 * bandMulVec w rows x t

/-- **Pivots are positive.** If the stored symmetric band matrix is positive definite (on vectors of the
    right length), every pivot `d_t` the factorisation divides by is positive. -/
theorem ldl_pivots_pos (w : Nat) (hw : 1 ≤ w) (rows : List (List K))
    (hrow : ∀ row ∈ rows, row.length = w)
    (hpd : ∀ x : List K, x.length = rows.length → (∃ t, t < rows.length ∧ x.getD t 0 ≠ 0) →
      0 < bandQuad w rows x) :
    ∀ t, t < rows.length → 0 < bandAt (ldlRows w rows) t 0 := by
  sorry

end Jb
