/-
  Positive definiteness ⇒ every pivot of the banded LDLᵀ factorisation is positive
  (discharges the `hpiv` hypothesis of `ldl_solves` for the MLPG system, whose matrix W'U⁻¹W is
  positive definite as soon as the static precisions are positive).
-/
import Jb.Proofs.Ldl
import Jb.Proofs.PivotsAux

set_option linter.unusedSectionVars false

namespace Jb

open Finset

variable {K : Type} [Field K] [LinearOrder K] [IsStrictOrderedRing K]

/-- the quadratic form `xᵀ A x` of the symmetric band matrix stored in `rows` -/
def bandQuad (w : Nat) (rows : List (List K)) (x : List K) : K :=
  (Finset.range rows.length).sum fun t => x.getD t 0 * bandMulVec w rows x t

/-- the list-level quadratic form is the function-level one -/
theorem bandQuad_eq_quadF (w : Nat) (hw : 1 ≤ w) (rows : List (List K))
    (hrow : ∀ row ∈ rows, row.length = w) (x : List K) :
    bandQuad w rows x = quadF rows.length (bandAt rows) (fun s => x.getD s 0) := by
  unfold bandQuad quadF
  apply sum_congr rfl
  intro t ht
  rw [bandMulVec_eq w hw rows hrow x t (mem_range.mp ht)]

/-- **Pivots are positive.** If the stored symmetric band matrix is positive definite (on vectors of the
    right length), every pivot `d_t` the factorisation divides by is positive. -/
theorem ldl_pivots_pos (w : Nat) (hw : 1 ≤ w) (rows : List (List K))
    (hrow : ∀ row ∈ rows, row.length = w)
    (hpd : ∀ x : List K, x.length = rows.length → (∃ t, t < rows.length ∧ x.getD t 0 ≠ 0) →
      0 < bandQuad w rows x) :
    ∀ t, t < rows.length → 0 < bandAt (ldlRows w rows) t 0 := by
  intro t
  induction t using Nat.strong_induction_on with
  | _ t ih =>
    intro ht
    obtain ⟨x, hxt, hx0, hq⟩ := exists_pivot_vector t (bandAt rows) (bandAt (ldlRows w rows))
      (fun s => bandAt (ldlRows w rows) s 0)
      (fun s hs => ldl_Rd w hw rows s (by omega))
      (fun s hs j hj => ldl_Rl w hw rows hrow s (by omega)
        (ne_of_gt (ih s (by omega) (by omega))) j hj)
    have hget : (fun s => ((List.range rows.length).map x).getD s 0) = x := by
      funext s
      rcases Nat.lt_or_ge s rows.length with h | h
      · rw [List.getD_eq_getElem _ _ (by simpa using h)]
        simp
      · rw [List.getD_eq_default _ _ (by simpa using h), hx0 s (by omega)]
    have hpos := hpd ((List.range rows.length).map x) (by simp)
      ⟨t, ht, by rw [congrFun hget t, hxt]; exact one_ne_zero⟩
    rw [bandQuad_eq_quadF w hw rows hrow, hget,
      quadF_shrink rows.length (t + 1) (by omega) _ _ (fun s hs => hx0 s (by omega)), hq] at hpos
    exact hpos

end Jb
