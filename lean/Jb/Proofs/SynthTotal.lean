/-
  C01 lifted from the stage inputs to the parsed voices: `Synth.synthesize` — tree selection and voice
  interpolation (`Models::{duration, stream, gv}`), `Engine::load`, any setter history, `Engine::synthesize` —
  is total and frame-exact on every well-formed voice set, for every label sequence.

    * `Synth.VoicesWF voices iw` — well-formedness of the voice set and its interpolation weights; every clause
      is about the parsed voices / the weights (`HeadWF`: layout and PDF shapes of the first voice; `VoiceWF`:
      every voice has the first voice's streams and total trees; `WeightsWF`: one weight per voice);
    * `Synth.engineIn_total`   — the stage inputs exist, satisfy `EngineWF`, one duration Gaussian per state;
    * `Synth.synthesize_total` (`synthesize_total'` exposes the stage inputs and ties `durs` to
      `engineDurations`), `synthesize_frames_ge`, `synthesize_empty`;
    * `evalTree_total`, `evalTree_leaf`, `getParameter_of_tree` — how the ∀-label tree clauses follow from
      `TreeWF` (C04) + `convert_tree` succeeding + "every PDF id in the tree is within the PDF list";
    * `Tiny.voicesWF` — non-vacuity: a concrete two-stream voice (with a GV model) satisfies `VoicesWF`;
    * `Tiny.badVoice_panics` — the shape clause cannot be dropped (see below).

  How `VoicesWF` relates to the statement that was asked for, and what had to be added:

  1. ADDED `HeadWF.nstates_pos : 0 < NUM_STATES`. It is used only when alignment is on: `EngineWF.align` asks for
     `0 < nstate`, so `engineIn_total` (whose conclusion contains `EngineWF`) is false for a voice with
     `NUM_STATES:0` and `set_alignment(true)`; such a voice is loadable (`parseVoice` does not reject 0) and
     satisfies every other clause with empty duration PDFs. (The model itself does not seem to panic in that
     case — every list is empty — but `engineSynthesize_total` cannot be invoked.)
  2. The tree clause is split into *totality* for every voice (`VoiceWF`: `(getParameter …).isSome` for every
     label) and *shape* for the first voice only (`HeadWF.durShape`, `HeadWF.streamShape`: whatever
     `getParameter` returns has the expected number of means and variances). This is weaker than "every
     voice, exact length": `VoiceSet::weighted` zips the other voices' Gaussians onto the first voice's list
     (`zipAdd` keeps the left length), so only the first voice's lengths matter, and the stream clause needs
     only `veclen × #windows ≤ length` (`StreamWF`). The duration clause needs equality (`= nstates`).
     Not needed at all for totality, hence absent: agreement of the voices' metadata (`VoiceSet::new`),
     `msd.isSome` (a missing MSD weight is read as `big`), the length of a GV PDF (read with `getD`),
     `windows.length = info.nwin`.
  3. `#windows` is `s.windows.length` — the windows actually loaded from `STREAM_WIN` — not `info.nwin`
     (`NUM_WINDOWS`), from which the loader computes the PDF length. Neither `parseVoice` nor the Rust loader
     (src/model/parser/mod.rs) compares the two, so `HeadWF.streamShape` is NOT implied by successful loading:
     `Tiny.badVoice` (two `STREAM_WIN` entries, PDFs cut for `NUM_WINDOWS:1`) has total trees and
     `Tiny.badVoice_panics : synthesize … = .panic "mlpg_adjust/mod.rs:curr_stream[m]"` for every single label
     (`curr_stream[vector_length * window_index + vector_index]` out of range). A real voice satisfies the
     clause iff `NUM_WINDOWS ≥` the number of `STREAM_WIN` entries.
  4. The weight clauses are the natural `length = voices.length` (`WeightsWF.of_IWWF` gets them from `IW.WF`);
     the proof uses only that the weight vectors read are non-empty.
  5. The theorems name the first voice: `(v0) (hv0 : voices.head? = some v0)`, the condition being
     `condOf v0 ops` = the `c` of `Synth.synthesize` (`synthesize_cons` is `rfl`).
-/
import Jb.Model.Synth
import Jb.Proofs.Total
import Jb.Proofs.SynthLemmas
import Jb.Proofs.Hts
import Jb.Proofs.Weights

set_option linter.unusedSectionVars false
set_option linter.unusedVariables false

namespace Jb

variable {K : Type} [Field K] [LinearOrder K] [IsStrictOrderedRing K] [FloorRing K]
  [Transc K] [Consts K] [MlpgConsts K] [FromFile K]

/-! ### the setter history keeps one threshold and one GV weight per stream -/

theorem CondOp.apply_lengths (c c' : Condition K) (op : CondOp K) (h : CondOp.apply c op = .ok c') :
    c'.msdThreshold.length = c.msdThreshold.length ∧ c'.gvWeight.length = c.gvWeight.length := by
  cases op <;> simp only [CondOp.apply, Outcome.ok.injEq] at h
  case msd i f =>
    unfold Condition.setMsdThreshold at h
    split_ifs at h
    simp only [Outcome.ok.injEq] at h
    subst h
    simp
  case gv i f =>
    unfold Condition.setGvWeight at h
    split_ifs at h
    simp only [Outcome.ok.injEq] at h
    subst h
    simp
  all_goals (subst h; exact ⟨rfl, rfl⟩)

theorem applyHistory_lengths (c : Condition K) (ops : List (CondOp K)) :
    (applyHistory c ops).msdThreshold.length = c.msdThreshold.length ∧
      (applyHistory c ops).gvWeight.length = c.gvWeight.length := by
  induction ops generalizing c with
  | nil => exact ⟨rfl, rfl⟩
  | cons op ops ih =>
    unfold applyHistory
    rw [List.foldl_cons]
    cases h : CondOp.apply c op with
    | ok c' =>
      obtain ⟨h1, h2⟩ := CondOp.apply_lengths c c' op h
      obtain ⟨i1, i2⟩ := ih c'
      exact ⟨i1.trans h1, i2.trans h2⟩
    | err e => exact ih c
    | panic s => exact ih c

theorem loadModel_lengths (c : Condition K) (sr fp ns : Nat) (st : Option Nat) (lg : Option Bool) (al : Option K) :
    (c.loadModel sr fp ns st lg al).msdThreshold.length = ns ∧
      (c.loadModel sr fp ns st lg al).gvWeight.length = ns := by
  simp [Condition.loadModel]

namespace Synth
open Hts

/-! ### `sequenceOut` / `sequenceO` inversion -/

theorem sequenceOut_map_ok {β γ : Type} (l : List γ) (f : γ → Outcome Unit β) (P : γ → β → Prop)
    (h : ∀ x ∈ l, ∃ a, f x = .ok a ∧ P x a) :
    ∃ as, sequenceOut (l.map f) = .ok as ∧ as.length = l.length ∧
      ∀ (i : Nat) a, as[i]? = some a → ∃ x, l[i]? = some x ∧ P x a := by
  induction l with
  | nil => exact ⟨[], rfl, rfl, by simp⟩
  | cons x xs ih =>
    obtain ⟨a, ha, hp⟩ := h x (by simp)
    obtain ⟨as, has, hl, hi⟩ := ih (fun y hy => h y (by simp [hy]))
    refine ⟨a :: as, ?_, by simp [hl], ?_⟩
    · simp only [List.map_cons, sequenceOut, ha, has, Outcome.bind]
    · intro i b hb
      cases i with
      | zero =>
        simp only [List.getElem?_cons_zero, Option.some.injEq] at hb
        subst hb
        exact ⟨x, by simp, hp⟩
      | succ i =>
        simp only [List.getElem?_cons_succ] at hb ⊢
        exact hi i b hb

theorem sequenceOut_ok {β : Type} (l : List (Outcome Unit β)) (P : β → Prop)
    (h : ∀ x ∈ l, ∃ a, x = .ok a ∧ P a) :
    ∃ as, sequenceOut l = .ok as ∧ as.length = l.length ∧ ∀ a ∈ as, P a := by
  obtain ⟨as, h1, h2, h3⟩ := sequenceOut_map_ok l id (fun _ a => P a) h
  refine ⟨as, by simpa using h1, h2, ?_⟩
  intro a ha
  obtain ⟨i, hi, rfl⟩ := List.mem_iff_getElem.1 ha
  obtain ⟨_, _, hp⟩ := h3 i as[i] (List.getElem?_eq_getElem hi)
  exact hp

theorem sequenceOut_range_ok {β : Type} (n : Nat) (f : Nat → Outcome Unit β) (P : Nat → β → Prop)
    (h : ∀ i < n, ∃ a, f i = .ok a ∧ P i a) :
    ∃ as, sequenceOut ((List.range n).map f) = .ok as ∧ as.length = n ∧
      ∀ (i : Nat) a, as[i]? = some a → P i a := by
  obtain ⟨as, h1, h2, h3⟩ := sequenceOut_map_ok (List.range n) f P
    (fun x hx => h x (List.mem_range.1 hx))
  refine ⟨as, h1, by simpa using h2, ?_⟩
  intro i a ha
  obtain ⟨x, hx, hp⟩ := h3 i a ha
  have hi : i < n := by
    have := (List.getElem?_eq_some_iff.1 hx).1
    simpa using this
  rw [List.getElem?_range hi, Option.some.injEq] at hx
  subst hx
  exact hp

theorem sequenceO_some {β : Type} (l : List (Option β)) (h : ∀ o ∈ l, o.isSome = true) :
    ∃ ps, sequenceO l = some ps ∧ ps.length = l.length := by
  induction l with
  | nil => exact ⟨[], rfl, rfl⟩
  | cons o os ih =>
    obtain ⟨ps, hps, hl⟩ := ih (fun o' ho' => h o' (by simp [ho']))
    have ho := h o (by simp)
    cases o with
    | none => simp at ho
    | some x => exact ⟨x :: ps, by simp [sequenceO, hps], by simp [hl]⟩

/-! ### `VoiceSet::weighted` keeps the shape of the first voice's Gaussian list -/

theorem foldl_mulAddAssign_length (l : List (ModelParameter K × K)) (acc : ModelParameter K) :
    (l.foldl (fun acc (x : ModelParameter K × K) => acc.mulAddAssign x.2 x.1) acc).parameters.length
      = acc.parameters.length := by
  induction l generalizing acc with
  | nil => rfl
  | cons x xs ih =>
    rw [List.foldl_cons, ih]
    simp [ModelParameter.mulAddAssign, ModelParameter.zipAdd_length]

theorem weighted_ok (ws : List K) (p : ModelParameter K) (ps : List (ModelParameter K)) (hw : ws ≠ []) :
    ∃ mp, weighted ws (p :: ps) = .ok mp ∧ mp.parameters.length = p.parameters.length := by
  cases ws with
  | nil => exact absurd rfl hw
  | cons w wr =>
    refine ⟨_, rfl, ?_⟩
    have := foldl_mulAddAssign_length (ps.zip wr) (p.mul w)
    rw [ModelParameter.mul_length] at this
    exact this

/-- the blend of the voices' selections exists as soon as every voice selects something and there is a
    weight; its Gaussian list is as long as the first voice's -/
theorem blend_ok (ws : List K) (p : ModelParameter K) (rest : List (Option (ModelParameter K)))
    (hw : ws ≠ []) (hr : ∀ o ∈ rest, o.isSome = true) :
    ∃ mp, blend ws (some p :: rest) = .ok mp ∧ mp.parameters.length = p.parameters.length := by
  obtain ⟨ps, hps, -⟩ := sequenceO_some rest hr
  obtain ⟨mp, hmp, hl⟩ := weighted_ok ws p ps hw
  refine ⟨mp, ?_, hl⟩
  unfold blend
  simp only [sequenceO, hps, Option.map_some]
  exact hmp

theorem toModelParameter_length (p : PdfBits) :
    (toModelParameter (α := K) p).parameters.length = min p.means.length p.varis.length := by
  simp [toModelParameter]

theorem length_flatten_map_const {β γ : Type} (l : List β) (f : β → List γ) (n : Nat)
    (h : ∀ x ∈ l, (f x).length = n) : ((l.map f).flatten).length = l.length * n := by
  induction l with
  | nil => simp
  | cons x xs ih =>
    simp only [List.map_cons, List.flatten_cons, List.length_append, List.length_cons, Nat.succ_mul]
    rw [ih (fun y hy => h y (by simp [hy])), h x (by simp)]
    omega

/-! ### well-formed voice sets -/

/-- the reference (first) voice: stream layout, and the *shape* of what its trees select -/
structure HeadWF (v0 : ParsedVoice) : Prop where
  /-- `NUM_STATES ≥ 1` (used only when alignment is on) -/
  nstates_pos : 0 < v0.global.nstates
  nstreams : v0.global.nstreams = 2 ∨ v0.global.nstreams = 3
  streams : v0.streams.length = v0.global.nstreams
  /-- log-F0 is scalar -/
  lf0 : ∀ s, v0.streams[1]? = some s → s.info.veclen = 1
  /-- the low-pass filter (if there is a third stream) has odd length -/
  lpf : ∀ s, v0.streams[2]? = some s → s.info.veclen % 2 = 1
  windows : ∀ s ∈ v0.streams, 1 ≤ s.windows.length
  /-- a duration PDF is `nstates` means and `nstates` variances -/
  durShape : ∀ label x, getParameter v0.duration 2 label = some x →
    x.2.2.means.length = v0.global.nstates ∧ x.2.2.varis.length = v0.global.nstates
  /-- a stream PDF has (at least) `veclen × #windows` means and variances -/
  streamShape : ∀ s ∈ v0.streams, ∀ k < v0.global.nstates, ∀ label x,
    getParameter s.model (k + 2) label = some x →
      s.info.veclen * s.windows.length ≤ x.2.2.means.length ∧
      s.info.veclen * s.windows.length ≤ x.2.2.varis.length

/-- any voice of the set, against the reference voice `v0`: it has the streams `v0` has (a GV model where
    `v0` uses GV), and its trees are *total*: every label selects a PDF at every state index used -/
structure VoiceWF (v0 v : ParsedVoice) : Prop where
  dur : ∀ label, (getParameter v.duration 2 label).isSome = true
  stream : ∀ (i : Nat) s0, v0.streams[i]? = some s0 → ∃ s, v.streams[i]? = some s ∧
    (∀ k < v0.global.nstates, ∀ label, (getParameter s.model (k + 2) label).isSome = true) ∧
    (s0.info.useGv = true → ∃ g, s.gv = some g ∧ ∀ label, (getParameter g 2 label).isSome = true)

/-- one weight per voice in every weight vector that is read -/
structure WeightsWF (nvoices nstreams : Nat) (iw : IW K) : Prop where
  dur : iw.duration.length = nvoices
  par : ∀ i < nstreams, (iw.parameter.getD i []).length = nvoices
  gv : ∀ i < nstreams, (iw.gv.getD i []).length = nvoices

/-- **well-formed voice set**: what the loader and `VoiceSet::new` establish, as far as totality needs it -/
structure VoicesWF (voices : List ParsedVoice) (iw : IW K) : Prop where
  nonempty : voices ≠ []
  head : ∀ v0, voices.head? = some v0 → HeadWF v0
  each : ∀ v0, voices.head? = some v0 → ∀ v ∈ voices, VoiceWF v0 v
  weights : ∀ v0, voices.head? = some v0 → WeightsWF voices.length v0.global.nstreams iw

/-- `InterporationWeight`'s own invariant (`IW.WF`, preserved by every setter: `apply_ok_wf`) gives the
    weight clause -/
theorem WeightsWF.of_IWWF (iw : IW K) (ns : Nat) (h : iw.WF ns) : WeightsWF iw.nvoices ns iw := by
  obtain ⟨h1, h2, h3, h4, h5⟩ := h
  refine ⟨h1, fun i hi => ?_, fun i hi => ?_⟩
  · have hi' : i < iw.parameter.length := by omega
    rw [List.getD_eq_getElem?_getD, List.getElem?_eq_getElem hi']
    exact h4 _ (List.getElem_mem hi')
  · have hi' : i < iw.gv.length := by omega
    rw [List.getD_eq_getElem?_getD, List.getElem?_eq_getElem hi']
    exact h5 _ (List.getElem_mem hi')

/-- the condition `Engine::load` + the setter history produce -/
def condOf (v0 : ParsedVoice) (ops : List (CondOp K)) : Condition K :=
  applyHistory (Condition.default.loadModel v0.global.sr v0.global.fp v0.global.nstreams
    (headerOptions (α := K) v0).1 (headerOptions (α := K) v0).2.1 (headerOptions (α := K) v0).2.2) ops

theorem condOf_lengths (v0 : ParsedVoice) (ops : List (CondOp K)) :
    (condOf (K := K) v0 ops).msdThreshold.length = v0.global.nstreams ∧
      (condOf (K := K) v0 ops).gvWeight.length = v0.global.nstreams := by
  obtain ⟨h1, h2⟩ := applyHistory_lengths (Condition.default.loadModel v0.global.sr v0.global.fp v0.global.nstreams
    (headerOptions (α := K) v0).1 (headerOptions (α := K) v0).2.1 (headerOptions (α := K) v0).2.2) ops
  obtain ⟨l1, l2⟩ := loadModel_lengths (Condition.default (α := K)) v0.global.sr v0.global.fp v0.global.nstreams
    (headerOptions (α := K) v0).1 (headerOptions (α := K) v0).2.1 (headerOptions (α := K) v0).2.2
  exact ⟨h1.trans l1, h2.trans l2⟩

theorem synthesize_cons (fx : Fix) (big : K) (v0 : ParsedVoice) (vs : List ParsedVoice) (iw : IW K)
    (ops : List (CondOp K)) (f : Condition K → Bool) (labels : List (List Char)) (times : List (K × K)) :
    synthesize fx big (v0 :: vs) iw ops f labels times =
      (engineIn big (v0 :: vs) iw labels times).bind fun inp =>
        engineSynthesize fx (condOf v0 ops) (f (condOf v0 ops)) inp := rfl

/-! ### the stage inputs, from well-formed voices -/

theorem select_some (m : FileModel) (k : Nat) (l : List Char) (x : Nat × Nat × PdfBits)
    (h : getParameter m k l = some x) : select (α := K) m k l = some (toModelParameter x.2.2) := by
  simp [select, h]

theorem select_isSome (m : FileModel) (k : Nat) (l : List Char)
    (h : (getParameter m k l).isSome = true) : (select (α := K) m k l).isSome = true := by
  simp [select, h]

section stages
variable (v0 : ParsedVoice) (vs : List ParsedVoice) (iw : IW K)
  (hh : HeadWF v0) (he : ∀ v ∈ v0 :: vs, VoiceWF v0 v)
  (hw : WeightsWF (K := K) (v0 :: vs).length v0.global.nstreams iw)
include hh he hw

theorem modelsDuration_ok (labels : List (List Char)) :
    ∃ dur, modelsDuration (v0 :: vs) iw labels = .ok dur ∧
      dur.length = labels.length * v0.global.nstates := by
  have hstep : ∀ l ∈ labels, ∃ mp, blend iw.duration ((v0 :: vs).map fun v => select (α := K) v.duration 2 l) = .ok mp ∧
      mp.parameters.length = v0.global.nstates := by
    intro l _
    have h0 := (he v0 (by simp)).dur l
    obtain ⟨x, hx⟩ := Option.isSome_iff_exists.1 h0
    obtain ⟨e1, e2⟩ := hh.durShape l x hx
    have hws : iw.duration ≠ [] := by
      intro h; have := hw.dur; rw [h] at this; simp at this
    obtain ⟨mp, hmp, hl⟩ := blend_ok iw.duration (toModelParameter (α := K) x.2.2)
      (vs.map fun v => select (α := K) v.duration 2 l) hws (by
        intro o ho
        obtain ⟨v, hv, rfl⟩ := List.mem_map.1 ho
        exact select_isSome _ _ _ ((he v (by simp [hv])).dur l))
    refine ⟨mp, ?_, ?_⟩
    · rw [List.map_cons, select_some _ _ _ x hx]; exact hmp
    · rw [hl, toModelParameter_length, e1, e2, Nat.min_self]
  obtain ⟨ps, hps, hl, hall⟩ := sequenceOut_map_ok labels
    (fun l => blend iw.duration ((v0 :: vs).map fun v => select (α := K) v.duration 2 l))
    (fun _ mp => mp.parameters.length = v0.global.nstates) hstep
  refine ⟨(ps.map (·.parameters)).flatten, ?_, ?_⟩
  · unfold modelsDuration
    rw [hps]; rfl
  · rw [length_flatten_map_const ps (·.parameters) v0.global.nstates, hl]
    intro p hp
    obtain ⟨i, hi, rfl⟩ := List.mem_iff_getElem.1 hp
    obtain ⟨_, _, h⟩ := hall i ps[i] (List.getElem?_eq_getElem hi)
    exact h

theorem modelsStream_ok (big : K) (labels : List (List Char)) (i : Nat) (s0 : ParsedStream)
    (hs0 : v0.streams[i]? = some s0) (hi : i < v0.global.nstreams) :
    ∃ st, modelsStream big (v0 :: vs) iw labels v0.global.nstates i = .ok st ∧
      st.length = labels.length * v0.global.nstates ∧
      ∀ s ∈ st, s0.info.veclen * s0.windows.length ≤ s.params.length := by
  have hws : iw.parameter.getD i [] ≠ [] := by
    intro h; have := hw.par i hi; rw [h] at this; simp at this
  have hmem0 : s0 ∈ v0.streams := List.mem_of_getElem? hs0
  have hstep : ∀ l, ∀ k < v0.global.nstates, ∃ sp : StateParam K,
      (blend (iw.parameter.getD i []) ((v0 :: vs).map fun v => (streamOf v i).bind fun s => select (α := K) s.model (k + 2) l)).map
        (fun mp => ({ params := mp.parameters, msd := mp.msd.getD big } : StateParam K)) = .ok sp ∧
      s0.info.veclen * s0.windows.length ≤ sp.params.length := by
    intro l k hk
    obtain ⟨s, hs, ht, -⟩ := (he v0 (by simp)).stream i s0 hs0
    rw [hs0, Option.some.injEq] at hs
    subst hs
    obtain ⟨x, hx⟩ := Option.isSome_iff_exists.1 (ht k hk l)
    obtain ⟨e1, e2⟩ := hh.streamShape s0 hmem0 k hk l x hx
    obtain ⟨mp, hmp, hl⟩ := blend_ok (iw.parameter.getD i []) (toModelParameter (α := K) x.2.2)
      (vs.map fun v => (streamOf v i).bind fun s => select (α := K) s.model (k + 2) l) hws (by
        intro o ho
        obtain ⟨v, hv, rfl⟩ := List.mem_map.1 ho
        obtain ⟨s, hs, ht, -⟩ := (he v (by simp [hv])).stream i s0 hs0
        simp only [streamOf, hs, Option.bind_some]
        exact select_isSome _ _ _ (ht k hk l))
    refine ⟨{ params := mp.parameters, msd := mp.msd.getD big }, ?_, ?_⟩
    · rw [List.map_cons]
      simp only [streamOf, hs0, Option.bind_some]
      rw [select_some _ _ _ x hx]
      simp only [streamOf] at hmp
      rw [hmp]; rfl
    · show _ ≤ mp.parameters.length
      rw [hl, toModelParameter_length]
      exact Nat.le_min.2 ⟨e1, e2⟩
  unfold modelsStream
  obtain ⟨st, h1, h2, h3⟩ := sequenceOut_ok (P := fun sp : StateParam K => s0.info.veclen * s0.windows.length ≤ sp.params.length)
    (l := (labels.map fun l => (List.range v0.global.nstates).map fun k =>
      (blend (iw.parameter.getD i []) ((v0 :: vs).map fun v => (streamOf v i).bind fun s => select (α := K) s.model (k + 2) l)).map
        fun mp => ({ params := mp.parameters, msd := mp.msd.getD big } : StateParam K)).flatten) (by
      intro x hx
      obtain ⟨row, hrow, hxr⟩ := List.mem_flatten.1 hx
      obtain ⟨l, _, rfl⟩ := List.mem_map.1 hrow
      obtain ⟨k, hk, rfl⟩ := List.mem_map.1 hxr
      exact hstep l k (List.mem_range.1 hk))
  refine ⟨st, h1, ?_, h3⟩
  rw [h2, length_flatten_map_const labels _ v0.global.nstates (by intro l _; simp)]

theorem modelsGv_ok (labels : List (List Char)) (i : Nat) (s0 : ParsedStream)
    (hs0 : v0.streams[i]? = some s0) (hi : i < v0.global.nstreams) :
    ∃ gv, modelsGv (v0 :: vs) iw labels v0.global.nstates i = .ok gv ∧
      ∀ g sw, gv = some (g, sw) → sw.length = labels.length * v0.global.nstates := by
  unfold modelsGv
  simp only [streamOf, hs0]
  cases hgv : s0.info.useGv with
  | false => exact ⟨none, by simp, by simp⟩
  | true =>
    cases labels with
    | nil => exact ⟨none, by simp, by simp⟩
    | cons l0 ls =>
      have hws : iw.gv.getD i [] ≠ [] := by
        intro h; have := hw.gv i hi; rw [h] at this; simp at this
      obtain ⟨s, hs, -, hg⟩ := (he v0 (by simp)).stream i s0 hs0
      rw [hs0, Option.some.injEq] at hs
      subst hs
      obtain ⟨g0, hg0, htot⟩ := hg hgv
      obtain ⟨x, hx⟩ := Option.isSome_iff_exists.1 (htot l0)
      obtain ⟨mp, hmp, -⟩ := blend_ok (iw.gv.getD i []) (toModelParameter (α := K) x.2.2)
        (vs.map fun v => (v.streams[i]?).bind fun s => s.gv.bind fun g => select (α := K) g 2 l0) hws (by
          intro o ho
          obtain ⟨v, hv, rfl⟩ := List.mem_map.1 ho
          obtain ⟨s, hs, -, hg⟩ := (he v (by simp [hv])).stream i s0 hs0
          obtain ⟨g, hg1, hg2⟩ := hg hgv
          simp only [hs, hg1, Option.bind_some]
          exact select_isSome _ _ _ (hg2 l0))
      refine ⟨some (mp.parameters, ((l0 :: ls).map fun l =>
        List.replicate v0.global.nstates (!(questionTest v0.global.gvOff l))).flatten), ?_, ?_⟩
      · simp only [Bool.not_true, Bool.false_eq_true, if_false, List.map_cons, hs0, hg0, Option.bind_some]
        rw [select_some _ _ _ x hx, hmp]; rfl
      · intro g sw h
        simp only [Option.some.injEq, Prod.mk.injEq] at h
        rw [← h.2]
        exact gv_switch_spec v0 (l0 :: ls) v0.global.nstates

theorem modelStream_ok (big : K) (labels : List (List Char)) (i : Nat) (s0 : ParsedStream)
    (hs0 : v0.streams[i]? = some s0) (hi : i < v0.global.nstreams) :
    ∃ s, modelStream big (v0 :: vs) iw labels v0.global.nstates i = .ok s ∧
      s.vectorLength = s0.info.veclen ∧ StreamWF s ∧
      s.stream.length = labels.length * v0.global.nstates ∧
      ∀ g sw, s.gv = some (g, sw) → sw.length = labels.length * v0.global.nstates := by
  obtain ⟨st, hst, hsl, hsp⟩ := modelsStream_ok v0 vs iw hh he hw big labels i s0 hs0 hi
  obtain ⟨gv, hgv, hgl⟩ := modelsGv_ok v0 vs iw hh he hw labels i s0 hs0 hi
  refine ⟨{ vectorLength := s0.info.veclen, stream := st, gv,
            windows := s0.windows.map fun w => w.map FromFile.ofDecimal }, ?_, rfl, ?_, hsl, hgl⟩
  · unfold modelStream
    simp only [streamOf, hs0]
    rw [hst, hgv]; rfl
  · refine ⟨?_, ?_⟩
    · simpa using hh.windows s0 (List.mem_of_getElem? hs0)
    · intro sp hsp'
      simpa using hsp sp hsp'

end stages

/-- **the stage inputs exist and are well-formed** for every label sequence -/
theorem engineIn_total (big : K) (voices : List ParsedVoice) (iw : IW K) (h : VoicesWF voices iw)
    (v0 : ParsedVoice) (hv0 : voices.head? = some v0) (ops : List (CondOp K))
    (labels : List (List Char)) (times : List (K × K))
    (halign : (condOf (K := K) v0 ops).alignment = true → times.length = labels.length) :
    ∃ inp, engineIn big voices iw labels times = .ok inp ∧ EngineWF (condOf v0 ops) inp ∧
      inp.duration.length = labels.length * v0.global.nstates := by
  cases voices with
  | nil => simp at hv0
  | cons v0' vs =>
    simp only [List.head?_cons, Option.some.injEq] at hv0
    subst hv0
    have hh := h.head v0' rfl
    have he := h.each v0' rfl
    have hw := h.weights v0' rfl
    obtain ⟨dur, hdur, hdl⟩ := modelsDuration_ok v0' vs iw hh he hw labels
    obtain ⟨streams, hstr, hsl, hsi⟩ := sequenceOut_range_ok v0'.global.nstreams
      (fun i => modelStream big (v0' :: vs) iw labels v0'.global.nstates i)
      (fun i s => ∃ s0, v0'.streams[i]? = some s0 ∧ s.vectorLength = s0.info.veclen ∧ StreamWF s ∧
        s.stream.length = labels.length * v0'.global.nstates ∧
        ∀ g sw, s.gv = some (g, sw) → sw.length = labels.length * v0'.global.nstates) (by
        intro i hi
        have hi' : i < v0'.streams.length := by rw [hh.streams]; exact hi
        obtain ⟨s, h1, h2, h3, h4, h5⟩ := modelStream_ok v0' vs iw hh he hw big labels i v0'.streams[i]
          (List.getElem?_eq_getElem hi') hi
        exact ⟨s, h1, _, List.getElem?_eq_getElem hi', h2, h3, h4, h5⟩)
    refine ⟨{ nstate := v0'.global.nstates, nstream := v0'.global.nstreams, duration := dur, streams, times }, ?_, ?_, hdl⟩
    · unfold engineIn
      simp only
      rw [hdur, hstr]; rfl
    · obtain ⟨c1, c2⟩ := condOf_lengths (K := K) v0' ops
      refine ⟨hh.nstreams, hsl, ?_, ?_, ?_, by rw [c2], by rw [c1], ?_⟩
      · intro s hs
        obtain ⟨i, hi, rfl⟩ := List.mem_iff_getElem.1 hs
        obtain ⟨s0, -, -, hwf, hl, hg⟩ := hsi i streams[i] (List.getElem?_eq_getElem hi)
        refine ⟨hwf, by rw [hl, hdl], fun g sw hgs => ?_⟩
        rw [hg g sw hgs, hdl]
      · intro s hs
        obtain ⟨s0, h0, hv, -⟩ := hsi 1 s hs
        rw [hv]; exact hh.lf0 s0 h0
      · intro s hs
        obtain ⟨s0, h0, hv, -⟩ := hsi 2 s hs
        rw [hv]; exact hh.lpf s0 h0
      · intro ha
        refine ⟨hh.nstates_pos, ?_⟩
        show dur.length = times.length * v0'.global.nstates
        rw [hdl, halign ha]

/-- **Totality from the voices**, with the stage inputs and the durations `Engine::generator` chose exposed -/
theorem synthesize_total' (fx : Fix) (big : K) (voices : List ParsedVoice) (iw : IW K) (h : VoicesWF voices iw)
    (v0 : ParsedVoice) (hv0 : voices.head? = some v0) (ops : List (CondOp K)) (f : Condition K → Bool)
    (labels : List (List Char)) (times : List (K × K))
    (halign : (condOf (K := K) v0 ops).alignment = true → times.length = labels.length) :
    ∃ inp durs w, engineIn big voices iw labels times = .ok inp ∧
      engineDurations (condOf v0 ops) (f (condOf v0 ops)) inp = .ok durs ∧
      synthesize fx big voices iw ops f labels times = .ok w ∧
      w.length = (condOf (K := K) v0 ops).fperiod * durs.sum ∧
      durs.length = labels.length * v0.global.nstates ∧ (∀ d ∈ durs, 1 ≤ d) := by
  obtain ⟨inp, hin, hwf, hdl⟩ := engineIn_total big voices iw h v0 hv0 ops labels times halign
  obtain ⟨durs, w, hD, hl, hp, hW, hwl⟩ := engineSynthesize_total fx (condOf v0 ops) inp hwf (f (condOf v0 ops))
  refine ⟨inp, durs, w, hin, hD, ?_, hwl, by rw [hl, hdl], hp⟩
  cases voices with
  | nil => simp at hv0
  | cons v0' vs =>
    simp only [List.head?_cons, Option.some.injEq] at hv0
    subst hv0
    rw [synthesize_cons, hin]
    exact hW

/-- **C01 from the voices: `synthesize` is total and frame-exact on every well-formed voice set.** -/
theorem synthesize_total (fx : Fix) (big : K) (voices : List ParsedVoice) (iw : IW K) (h : VoicesWF voices iw)
    (v0 : ParsedVoice) (hv0 : voices.head? = some v0) (ops : List (CondOp K)) (f : Condition K → Bool)
    (labels : List (List Char)) (times : List (K × K))
    (halign : (condOf (K := K) v0 ops).alignment = true → times.length = labels.length) :
    ∃ (durs : List Nat) (w : List K), synthesize fx big voices iw ops f labels times = .ok w ∧
      w.length = (condOf (K := K) v0 ops).fperiod * durs.sum ∧
      durs.length = labels.length * v0.global.nstates ∧ (∀ d ∈ durs, 1 ≤ d) := by
  obtain ⟨_, durs, w, _, _, h1, h2, h3, h4⟩ :=
    synthesize_total' fx big voices iw h v0 hv0 ops f labels times halign
  exact ⟨durs, w, h1, h2, h3, h4⟩

theorem length_le_sum (d : List Nat) (h : ∀ x ∈ d, 1 ≤ x) : d.length ≤ d.sum := by
  induction d with
  | nil => simp
  | cons x xs ih =>
    have hx := h x (by simp)
    have := ih (fun y hy => h y (by simp [hy]))
    simp only [List.length_cons, List.sum_cons]
    omega

/-- every state of every label gets at least one frame: `F ≥ labels × states`, and the waveform has
    at least `frame_period × labels × states` samples -/
theorem synthesize_frames_ge (fx : Fix) (big : K) (voices : List ParsedVoice) (iw : IW K) (h : VoicesWF voices iw)
    (v0 : ParsedVoice) (hv0 : voices.head? = some v0) (ops : List (CondOp K)) (f : Condition K → Bool)
    (labels : List (List Char)) (times : List (K × K))
    (halign : (condOf (K := K) v0 ops).alignment = true → times.length = labels.length) :
    ∃ (durs : List Nat) (w : List K), synthesize fx big voices iw ops f labels times = .ok w ∧
      w.length = (condOf (K := K) v0 ops).fperiod * durs.sum ∧
      labels.length * v0.global.nstates ≤ durs.sum ∧
      (condOf (K := K) v0 ops).fperiod * (labels.length * v0.global.nstates) ≤ w.length := by
  obtain ⟨durs, w, h1, h2, h3, h4⟩ := synthesize_total fx big voices iw h v0 hv0 ops f labels times halign
  have hge : labels.length * v0.global.nstates ≤ durs.sum := by
    rw [← h3]; exact length_le_sum durs h4
  exact ⟨durs, w, h1, h2, hge, by rw [h2]; exact Nat.mul_le_mul_left _ hge⟩

/-- no labels: the empty waveform (whatever the alignment flag and the time list) -/
theorem synthesize_empty (fx : Fix) (big : K) (voices : List ParsedVoice) (iw : IW K) (h : VoicesWF voices iw)
    (ops : List (CondOp K)) (f : Condition K → Bool) :
    synthesize fx big voices iw ops f [] [] = .ok [] := by
  obtain ⟨v0, hv0⟩ : ∃ v0, voices.head? = some v0 := by
    cases voices with
    | nil => exact absurd rfl h.nonempty
    | cons v _ => exact ⟨v, rfl⟩
  obtain ⟨durs, w, h1, h2, h3, -⟩ := synthesize_total fx big voices iw h v0 hv0 ops f [] [] (fun _ => rfl)
  have hd : durs = [] := List.length_eq_zero_iff.1 (by simpa using h3)
  subst hd
  have hw : w = [] := List.length_eq_zero_iff.1 (by simpa using h2)
  subst hw
  exact h1

/-! ### discharging the tree clauses: from `TreeWF` (C04) to `getParameter` -/

/-- a walk can only end in a PDF id that is written in the tree -/
theorem evalChild_leaf (qs : Questions) (rows : List Row) (label : List Char) (k : Nat) :
    ∀ (fuel : Nat) (c : Child), evalChild qs rows label fuel c = some k →
      c = .pdf k ∨ ∃ r ∈ rows, r.yes = .pdf k ∨ r.no = .pdf k := by
  intro fuel
  induction fuel with
  | zero =>
    intro c h
    cases c with
    | pdf k' => left; simpa [evalChild] using h
    | node id => simp [evalChild] at h
  | succ fuel ih =>
    intro c h
    cases c with
    | pdf k' => left; simpa [evalChild] using h
    | node id =>
      right
      rw [evalChild] at h
      cases hf : findRow rows id with
      | none => simp [hf] at h
      | some r =>
        have hr : r ∈ rows := List.mem_of_find?_eq_some hf
        cases hq : lookupQ qs r.qname with
        | none => simp [hf, hq] at h
        | some pats =>
          simp only [hf, hq] at h
          rcases ih _ h with hc | hex
          · refine ⟨r, hr, ?_⟩
            by_cases ht : questionTest pats label = true
            · left; simpa [ht] using hc
            · right; simpa [ht] using hc
          · exact hex

theorem evalTree_leaf (qs : Questions) (t : FileTree) (label : List Char) (k : Nat)
    (h : evalTree qs t label = some k) : ∃ r ∈ t.rows, r.yes = .pdf k ∨ r.no = .pdf k := by
  unfold evalTree at h
  cases hrows : t.rows with
  | nil => simp [hrows] at h
  | cons r rest =>
    simp only [hrows] at h
    split_ifs at h with hc
    · cases hy : r.yes with
      | pdf k' =>
        simp only [hy, Option.some.injEq] at h
        subst h
        exact ⟨r, by simp, Or.inl hy⟩
      | node id => simp [hy] at h
    · rcases evalChild_leaf qs _ label k _ _ h with hc' | hex
      · cases hc'
      · exact hex

/-- **tree totality from `TreeWF`**: a well-formed tree that `convert_tree` accepts selects a PDF for
    every label (the single-leaf form included) -/
theorem evalTree_total (qs : Questions) (t : FileTree) (st : Nat) (nodes : List TNode) (hwf : TreeWF t)
    (hne : t.rows ≠ []) (hc : convertTree true qs t = .ok (st, nodes)) (label : List Char) :
    (evalTree qs t label).isSome = true := by
  by_cases hs : t.rows.length = 1 ∧ ∃ r, t.rows = [r] ∧ r.yes = r.no
  · obtain ⟨-, r, hr, hyn⟩ := hs
    cases hy : r.yes with
    | pdf k => simp [evalTree, hr, hyn.symm, hy, child_beq_iff]
    | node id =>
      exfalso
      have hb : (Child.node id == r.no) = true := (child_beq_iff _ _).2 (hy ▸ hyn)
      simp [convertTree, hr, hb, hy] at hc
  · obtain ⟨-, k, hk⟩ := search_refines_eval qs t st nodes hwf hne hs hc label
    simp [hk]

/-- from the tree to `getParameter`: the tree for the state index exists, its walk ends (`evalTree_total`),
    and every PDF id written in it is within the tree's PDF list — then `getParameter` returns one of
    these PDFs (so a property of all PDFs of the tree, e.g. their length, holds of what is selected) -/
theorem getParameter_of_tree (m : FileModel) (st ti : Nat) (t : FileTree) (ps : List PdfBits) (label : List Char)
    (hidx : ((m.trees.zip (List.range m.trees.length)).find? (·.1.state == st)).map (·.2) = some ti)
    (ht : m.trees[ti]? = some t) (hp : m.pdfs[ti]? = some ps)
    (hev : (evalTree m.questions t label).isSome = true)
    (hleaf : ∀ r ∈ t.rows, ∀ k, (r.yes = .pdf k ∨ r.no = .pdf k) → 0 < k ∧ k ≤ ps.length) :
    ∃ k p, getParameter m st label = some (ti + 2, k, p) ∧ p ∈ ps := by
  obtain ⟨k, hk⟩ := Option.isSome_iff_exists.1 hev
  obtain ⟨r, hr, hrk⟩ := evalTree_leaf _ _ _ _ hk
  obtain ⟨hk0, hkl⟩ := hleaf r hr k hrk
  have hlt : k - 1 < ps.length := by omega
  refine ⟨k, ps[k - 1], ?_, List.getElem_mem hlt⟩
  unfold getParameter
  simp only [hidx, ht, hk, hp, Option.bind_some]
  rw [if_neg (by omega), List.getElem?_eq_getElem hlt]

/-! ### non-vacuity: a concrete (tiny) voice set satisfying `VoicesWF` -/

namespace Tiny

/-- one single-leaf tree for state index 2 selecting PDF 1, which has `n` means and `n` variances -/
def leafModel (n : Nat) (msd : Option UInt32) : FileModel :=
  { questions := [], trees := [⟨2, [⟨0, "", .pdf 1, .pdf 1⟩]⟩],
    pdfs := [[⟨List.replicate n 0, List.replicate n 0, msd⟩]] }

theorem leafModel_get (n : Nat) (msd : Option UInt32) (label : List Char) :
    getParameter (leafModel n msd) 2 label = some (2, 1, ⟨List.replicate n 0, List.replicate n 0, msd⟩) := by
  simp [getParameter, leafModel, evalTree, child_beq_iff]

/-- one state, two streams (spectrum of order 1 without GV; scalar MSD log-F0 with GV), one window each -/
def voice : ParsedVoice :=
  { global := { version := "1.0", sr := 48000, fp := 240, nstates := 1, nstreams := 2,
                streamType := ["MCP", "LF0"], fmt := "HTS_TTS_JPN", fver := "1.0", gvOff := [] },
    duration := leafModel 1 none,
    streams := [
      { name := "MCP", info := { veclen := 1, nwin := 1, isMsd := false, useGv := false, option := [] },
        model := leafModel 1 none, gv := none, windows := [["1.0"]] },
      { name := "LF0", info := { veclen := 1, nwin := 1, isMsd := true, useGv := true, option := [] },
        model := leafModel 1 (some 0), gv := some (leafModel 1 none), windows := [["1.0"]] }] }

def weights : IW K := { nvoices := 1, duration := [1], parameter := [[1], [1]], gv := [[1], [1]] }

theorem headWF : HeadWF voice := by
  refine ⟨by decide, Or.inl rfl, rfl, ?_, ?_, ?_, ?_, ?_⟩
  · intro s hs
    simp only [voice, List.getElem?_cons_succ, List.getElem?_cons_zero, Option.some.injEq] at hs
    subst hs; rfl
  · intro s hs
    simp [voice] at hs
  · intro s hs
    simp only [voice, List.mem_cons, List.not_mem_nil, or_false] at hs
    rcases hs with rfl | rfl <;> decide
  · intro label x hx
    simp only [voice, leafModel_get, Option.some.injEq] at hx
    subst hx
    simp [voice]
  · intro s hs k hk label x hx
    have hk0 : k = 0 := by simp only [voice] at hk; omega
    subst hk0
    simp only [voice, List.mem_cons, List.not_mem_nil, or_false] at hs
    rcases hs with rfl | rfl <;>
    · simp only [Nat.zero_add, leafModel_get, Option.some.injEq] at hx
      subst hx
      simp

theorem voiceWF : VoiceWF voice voice := by
  refine ⟨fun label => by simp [voice, leafModel_get], ?_⟩
  intro i s0 hs0
  refine ⟨s0, hs0, ?_, ?_⟩
  · intro k hk label
    have hk0 : k = 0 := by simp only [voice] at hk; omega
    subst hk0
    have hm : s0 ∈ voice.streams := List.mem_of_getElem? hs0
    simp only [voice, List.mem_cons, List.not_mem_nil, or_false] at hm
    rcases hm with rfl | rfl <;> simp [leafModel_get]
  · intro hgv
    have hm : s0 ∈ voice.streams := List.mem_of_getElem? hs0
    simp only [voice, List.mem_cons, List.not_mem_nil, or_false] at hm
    rcases hm with rfl | rfl
    · simp at hgv
    · exact ⟨_, rfl, fun label => by simp [leafModel_get]⟩

/-- **`VoicesWF` is satisfiable**: the one-voice set `[voice]` with unit weights -/
theorem voicesWF : VoicesWF (K := K) [voice] weights := by
  refine ⟨by simp, ?_, ?_, ?_⟩
  · intro v0 h
    simp only [List.head?_cons, Option.some.injEq] at h
    subst h; exact headWF
  · intro v0 h v hv
    simp only [List.head?_cons, Option.some.injEq] at h
    subst h
    simp only [List.mem_singleton] at hv
    subst hv; exact voiceWF
  · intro v0 h
    simp only [List.head?_cons, Option.some.injEq] at h
    subst h
    refine ⟨rfl, ?_, ?_⟩ <;>
    · intro i hi
      have : i = 0 ∨ i = 1 := by simp only [voice] at hi; omega
      rcases this with rfl | rfl <;> rfl

/-- hence synthesis from `[voice]` returns for every label sequence, setter history and speed test -/
example (fx : Fix) (big : K) (ops : List (CondOp K)) (f : Condition K → Bool) (labels : List (List Char))
    (times : List (K × K))
    (halign : (condOf (K := K) voice ops).alignment = true → times.length = labels.length) :
    ∃ (durs : List Nat) (w : List K), synthesize fx big [voice] weights ops f labels times = .ok w ∧
      w.length = (condOf (K := K) voice ops).fperiod * durs.sum ∧ durs.length = labels.length * 1 ∧
      (∀ d ∈ durs, 1 ≤ d) :=
  synthesize_total fx big [voice] weights voicesWF voice rfl ops f labels times halign

def badVoice : ParsedVoice :=
  { voice with streams := [
      { name := "MCP", info := { veclen := 1, nwin := 1, isMsd := false, useGv := false, option := [] },
        model := leafModel 1 none, gv := none, windows := [["1.0"], ["-0.5", "0.0", "0.5"]] },
      { name := "LF0", info := { veclen := 1, nwin := 1, isMsd := true, useGv := true, option := [] },
        model := leafModel 1 (some 0), gv := some (leafModel 1 none), windows := [["1.0"]] }] }

theorem badVoice_engineIn (big : K) (l : List Char) :
    ∃ inp s st, engineIn big [badVoice] (weights (K := K)) [l] [] = .ok inp ∧ inp.duration.length = 1 ∧
      inp.streams[0]? = some s ∧ s.vectorLength = 1 ∧ s.windows.length = 2 ∧ s.stream = [st] ∧
      st.params.length = 1 := by
  simp [engineIn, modelsDuration, modelStream, modelsStream, modelsGv, blend, select, leafModel_get,
    sequenceOut, sequenceO, weighted, streamOf, badVoice, voice, weights, Outcome.bind, Outcome.map,
    List.range_succ, toModelParameter, ModelParameter.mul]

/-- a first spectrum state with fewer Gaussians than `veclen × #windows` is the `curr_stream[m]` panic -/
theorem engineSynthesize_short_state (fx : Fix) (c : Condition K) (b : Bool) (inp : EngineIn K)
    (s : StreamIn K) (st : StateParam K) (rest : List (StateParam K)) (gw thr : K)
    (hal : c.alignment = false) (hd : inp.duration ≠ []) (hs : inp.streams[0]? = some s)
    (hgw : c.gvWeight[0]? = some gw) (hthr : c.msdThreshold[0]? = some thr)
    (hv : 0 < s.vectorLength) (hwn : 0 < s.windows.length) (hst : s.stream = st :: rest)
    (hlt : st.params.length < s.vectorLength * s.windows.length) :
    engineSynthesize fx c b inp = .panic "mlpg_adjust/mod.rs:curr_stream[m]" := by
  obtain ⟨durs, hdur⟩ := durationCreate_ok inp.duration c.speed b
  have hdl := (durationCreate_shape _ _ _ _ hdur).1
  have hD : engineDurations c b inp = .ok durs := by
    unfold engineDurations
    simp [hal, hdur]
  obtain ⟨d, dr, rfl⟩ : ∃ d dr, durs = d :: dr := by
    cases durs with
    | nil => exact absurd (List.length_eq_zero_iff.1 hdl.symm) hd
    | cons d dr => exact ⟨d, dr, rfl⟩
  have hS0 : engineStream c inp (d :: dr) 0 = .panic "mlpg_adjust/mod.rs:curr_stream[m]" := by
    unfold engineStream
    rw [hs, hgw, hthr]
    simp only [Nat.zero_ne_one, if_false]
    rw [mlpgCreate_eq, if_pos]
    refine ⟨hv, hwn, ?_⟩
    rw [hst]
    simp [hlt]
  have hP : engineParams c b inp = .panic "mlpg_adjust/mod.rs:curr_stream[m]" := by
    unfold engineParams
    rw [hD]
    simp only
    rw [hS0]
  unfold engineSynthesize
  rw [hP]

/-- every tree of `badVoice` is total (the totality half of `VoicesWF` holds for `[badVoice]`) -/
theorem badVoice_voiceWF : VoiceWF badVoice badVoice := by
  refine ⟨fun label => by simp [badVoice, voice, leafModel_get], ?_⟩
  intro i s0 hs0
  refine ⟨s0, hs0, ?_, ?_⟩
  · intro k hk label
    have hk0 : k = 0 := by simp only [badVoice, voice] at hk; omega
    subst hk0
    have hm : s0 ∈ badVoice.streams := List.mem_of_getElem? hs0
    simp only [badVoice, List.mem_cons, List.not_mem_nil, or_false] at hm
    rcases hm with rfl | rfl <;> simp [leafModel_get]
  · intro hgv
    have hm : s0 ∈ badVoice.streams := List.mem_of_getElem? hs0
    simp only [badVoice, List.mem_cons, List.not_mem_nil, or_false] at hm
    rcases hm with rfl | rfl
    · simp at hgv
    · exact ⟨_, rfl, fun label => by simp [leafModel_get]⟩

/-- **the shape clause `HeadWF.streamShape` is needed, and the loader does not give it**: `badVoice` differs
    from `voice` only in that its spectrum stream lists two windows (`STREAM_WIN`) while its PDFs were cut
    for one (`NUM_WINDOWS:1`; nothing in `parseVoice` — or in the Rust loader — compares the two). Its
    trees are total (`badVoice_voiceWF`), the weights are as for `voice`, and synthesis of any single label
    reaches the `curr_stream[m]` index panic of `MlpgAdjust::create`. -/
theorem badVoice_panics (fx : Fix) (big : K) (f : Condition K → Bool) (l : List Char) :
    synthesize fx big [badVoice] (weights (K := K)) [] f [l] [] = .panic "mlpg_adjust/mod.rs:curr_stream[m]" := by
  obtain ⟨inp, s, st, hin, hdl, hs, hv, hwn, hst, hp⟩ := badVoice_engineIn (K := K) big l
  rw [synthesize_cons, hin]
  show engineSynthesize fx (condOf badVoice []) _ inp = _
  have hc : condOf (K := K) badVoice [] = Condition.default.loadModel 48000 240 2
      (headerOptions (α := K) badVoice).1 (headerOptions (α := K) badVoice).2.1 (headerOptions (α := K) badVoice).2.2 := rfl
  refine engineSynthesize_short_state fx _ _ inp s st [] 1 half ?_ ?_ hs ?_ ?_ (by omega) (by omega) hst (by rw [hp, hv, hwn]; decide)
  · rw [hc]; rfl
  · intro h; rw [h] at hdl; simp at hdl
  · rw [hc]; rfl
  · rw [hc]; rfl

end Tiny

end Synth
end Jb
