/-
  Auxiliary lemmas for `Jb/Proofs/Ldl.lean`:
  * finite-sum re-indexing helpers,
  * the purely algebraic statement "LDLᵀ recurrences ⇒ the band system is solved"
    (`band_solve_abstract`), stated over functions `ℕ → K`.
-/
import Mathlib.Algebra.Order.Field.Basic
import Mathlib.Algebra.BigOperators.Intervals
import Mathlib.Algebra.BigOperators.Ring.Finset
import Mathlib.Tactic.Ring
import Mathlib.Tactic.Linarith
import Mathlib.Tactic.FieldSimp

set_option linter.unusedSectionVars false

namespace Jb

open Finset

variable {K : Type} [Field K]

/-- extend a `range` sum by zero terms -/
theorem sum_range_extend (f : ℕ → K) {m n : ℕ} (hmn : m ≤ n) (hz : ∀ j, m ≤ j → j < n → f j = 0) :
    ∑ j ∈ range m, f j = ∑ j ∈ range n, f j := by
  apply Finset.sum_subset
  · intro x hx
    simp only [mem_range] at hx ⊢
    omega
  · intro x hx hx'
    simp only [mem_range] at hx hx'
    exact hz x (by omega) hx

/-- the "most recent first" window sum equals the full prefix sum when the dropped terms vanish -/
theorem sum_recent_eq (f : ℕ → K) {t n : ℕ} (hn : n ≤ t)
    (hz : ∀ i, n ≤ i → i < t → f (t - 1 - i) = 0) :
    ∑ i ∈ range n, f (t - 1 - i) = ∑ k ∈ range t, f k := by
  rw [sum_range_extend (fun i => f (t - 1 - i)) hn hz, sum_range_reflect]

/-- unit lower-triangular factor as a function on `ℕ × ℕ` -/
def lowerM (l : ℕ → ℕ → K) (s k : ℕ) : K := if k < s then l k (s - k) else if k = s then 1 else 0

theorem sum_lowerM (l : ℕ → ℕ → K) (X : ℕ → K) {T t : ℕ} (ht : t < T) :
    ∑ k ∈ range T, lowerM l t k * X k = (∑ k ∈ range t, l k (t - k) * X k) + X t := by
  rw [← sum_range_extend (fun k => lowerM l t k * X k) (show t + 1 ≤ T from ht), sum_range_succ]
  · congr 1
    · apply sum_congr rfl
      intro k hk
      simp only [mem_range] at hk
      simp [lowerM, hk]
    · simp [lowerM]
  · intro j h1 h2
    have h3 : ¬ j < t := by omega
    have h4 : ¬ j = t := by omega
    simp [lowerM, h3, h4]

theorem sum_lowerM_col (l : ℕ → ℕ → K) (c : ℕ → K) {T k : ℕ} (hk : k < T) :
    ∑ s ∈ range T, lowerM l s k * c s =
      c k + ∑ i ∈ range (T - 1 - k), l k (i + 1) * c (k + 1 + i) := by
  have hT : T = (k + 1) + (T - 1 - k) := by omega
  conv_lhs => rw [hT]
  rw [sum_range_add, sum_range_succ]
  congr 1
  · have : ∑ s ∈ range k, lowerM l s k * c s = 0 := by
      apply sum_eq_zero
      intro s hs
      simp only [mem_range] at hs
      have h3 : ¬ k < s := by omega
      have h4 : ¬ k = s := by omega
      simp [lowerM, h3, h4]
    rw [this]
    simp [lowerM]
  · apply sum_congr rfl
    intro i _
    have h1 : k < k + 1 + i := by omega
    have h2 : k + 1 + i - k = i + 1 := by omega
    simp [lowerM, h1, h2]

/-- **Abstract LDLᵀ correctness.** If `d`, `l` satisfy the (unbounded) factorisation recurrences
    for the symmetric band matrix `a`, `g` the forward and `c` the backward substitution
    recurrences, then `A c = r`. -/
theorem band_solve_abstract (T : ℕ) (a l : ℕ → ℕ → K) (d g r c : ℕ → K)
    (Rd : ∀ t, t < T → d t = a t 0 - ∑ k ∈ range t, l k (t - k) * l k (t - k) * d k)
    (Rl : ∀ t, t < T → ∀ j, 1 ≤ j →
      l t j * d t = a t j - ∑ k ∈ range t, l k (t - k) * l k (t - k + j) * d k)
    (Rg : ∀ t, t < T → g t = r t - ∑ k ∈ range t, l k (t - k) * g k)
    (Rc : ∀ t, t < T → g t = d t * (c t + ∑ i ∈ range (T - 1 - t), l t (i + 1) * c (t + 1 + i))) :
    ∀ t, t < T →
      (∑ s ∈ range t, a s (t - s) * c s) + (∑ i ∈ range (T - t), a t i * c (t + i)) = r t := by
  -- the factorisation identity `A = L D Lᵀ` on the upper triangle
  have HA : ∀ s s', s ≤ s' → s' < T →
      a s (s' - s) = ∑ k ∈ range T, lowerM l s k * lowerM l s' k * d k := by
    intro s s' hss hs'
    have hs : s < T := by omega
    have := sum_lowerM l (fun k => lowerM l s' k * d k) hs
    simp only [← mul_assoc] at this
    rw [this]
    rcases Nat.eq_or_lt_of_le hss with rfl | hlt
    · rw [Nat.sub_self, Rd s hs]
      have : ∑ k ∈ range s, l k (s - k) * lowerM l s k * d k =
          ∑ k ∈ range s, l k (s - k) * l k (s - k) * d k := by
        apply sum_congr rfl
        intro k hk
        simp only [mem_range] at hk
        simp [lowerM, hk]
      rw [this]
      simp [lowerM]
    · have h1 : lowerM l s' s = l s (s' - s) := by simp [lowerM, hlt]
      have : ∑ k ∈ range s, l k (s - k) * lowerM l s' k * d k =
          ∑ k ∈ range s, l k (s - k) * l k (s - k + (s' - s)) * d k := by
        apply sum_congr rfl
        intro k hk
        simp only [mem_range] at hk
        have h2 : k < s' := by omega
        have h3 : s - k + (s' - s) = s' - k := by omega
        simp [lowerM, h2, h3]
      rw [this, h1, Rl s hs (s' - s) (by omega)]
      ring
  -- `g = D Lᵀ c`
  have HG : ∀ k, k < T → g k = d k * ∑ s ∈ range T, lowerM l s k * c s := by
    intro k hk
    rw [sum_lowerM_col l c hk, Rc k hk]
  -- `r = L g`
  have HR : ∀ t, t < T → r t = ∑ k ∈ range T, lowerM l t k * g k := by
    intro t ht
    rw [sum_lowerM l g ht, Rg t ht]
    ring
  intro t ht
  -- assemble the full row of `A`
  have Hrow : (∑ s ∈ range t, a s (t - s) * c s) + (∑ i ∈ range (T - t), a t i * c (t + i)) =
      ∑ s ∈ range T, (∑ k ∈ range T, lowerM l t k * lowerM l s k * d k) * c s := by
    have hT : T = t + (T - t) := by omega
    conv_rhs => rw [hT, sum_range_add]
    congr 1
    · apply sum_congr rfl
      intro s hs
      simp only [mem_range] at hs
      rw [← hT, HA s t (by omega) ht]
      congr 1
      apply sum_congr rfl
      intro k _
      ring
    · apply sum_congr rfl
      intro i hi
      simp only [mem_range] at hi
      rw [← hT, ← HA t (t + i) (by omega) (by omega)]
      have : t + i - t = i := by omega
      rw [this]
  rw [Hrow, HR t ht]
  simp only [sum_mul]
  rw [sum_comm]
  apply sum_congr rfl
  intro k hk
  simp only [mem_range] at hk
  rw [HG k hk, mul_sum, mul_sum]
  apply sum_congr rfl
  intro s _
  ring

end Jb
