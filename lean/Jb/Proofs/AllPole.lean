/-
  C13, algebraic half of the magnitude clause for `alpha = 0`: the LSP synthesis filter is the all-pole filter
  `K / A(z)^stage` with `A(z) = ½(P(z) + Q(z))` — as a statement about the code's arithmetic, without complex
  analysis:

    * `lspCoefficients_alpha0`: the chain `lsp2lpc → ignorm → ·(−stage) → gnorm → gc2gc → ignorm → mc2b → gnorm → ·γ`
      that `Vocoder::synthesize` runs on every frame collapses, for `alpha = 0`, to `[K, a₁, …, a_m]` with `a` the
      LPC polynomial of `lsp2lpc` (which is `½(P+Q)` by `lsp2lpc_poly`) and `K` the (floored) gain;
    * `mglsa_section_allpole`: one MGLSA section with coefficients `c` at `alpha = 0` computes the difference
      equation `y[n] = x[n] − Σ_{k=1}^{m} c[k]·y[n−k]`, i.e. `1 / (1 + Σ c[k] z^{-k})`;
    * `mglsa_cascade_allpole`: `stage` sections iterate it.
  The laws of `powf` that are used are hypotheses (`pow` is an abstract operation of the scalar type).
-/
import Jb.Proofs.Lti
import Jb.Proofs.Cepstrum
import Jb.Proofs.LspPoly

set_option linter.unusedSectionVars false

namespace Jb

variable {K : Type} [Field K] [LinearOrder K] [IsStrictOrderedRing K] [Transc K] [Consts K]

/-- the all-pole difference equation `y[n] = x[n] − Σ_k a[k-1]·y[n−k]`, run over a signal from rest -/
def allPoleRun (a : List K) (xs : List K) : List K :=
  (xs.foldl (fun (hist : List K) x => (x - ((a.zip hist).map fun p => p.1 * p.2).sum) :: hist) []).reverse

/-! ### one section at `alpha = 0` -/

theorem dffStep_zero (d c : List K) (acc : K × List K × K) (i0 : Nat) :
    dffStep d 0 c acc i0 =
      (acc.1 + d.getD (i0 + 1) 0 * c.getD (i0 + 2) 0, d.getD (i0 + 1) 0 :: acc.2.1, d.getD (i0 + 1) 0) := by
  obtain ⟨y, rev, pn⟩ := acc
  simp [dffStep]

theorem foldl_dffStep_zero (d c : List K) (l : List Nat) (acc : K × List K × K) :
    (l.foldl (dffStep d 0 c) acc).1 =
        acc.1 + (l.map fun i => d.getD (i + 1) 0 * c.getD (i + 2) 0).sum ∧
      (l.foldl (dffStep d 0 c) acc).2.1 = (l.map fun i => d.getD (i + 1) 0).reverse ++ acc.2.1 := by
  induction l generalizing acc with
  | nil => simp
  | cons i l ih =>
    simp only [List.foldl_cons]
    obtain ⟨h1, h2⟩ := ih (dffStep d 0 c acc i)
    rw [h1, h2, dffStep_zero]
    simp only [List.map_cons, List.sum_cons, List.reverse_cons, List.append_assoc, List.singleton_append,
      and_true]
    ring

theorem map_getD_range (l : List K) (k : Nat) (hk : k ≤ l.length) :
    (List.range k).map (fun i => l.getD i 0) = l.take k := by
  induction l generalizing k with
  | nil =>
    have : k = 0 := by simpa using hk
    subst this; rfl
  | cons a l ih =>
    cases k with
    | zero => rfl
    | succ k =>
      simp only [List.length_cons, Nat.add_le_add_iff_right] at hk
      rw [List.range_succ_eq_map, List.map_cons, List.map_map, List.take_succ_cons, ← ih k hk]
      simp [Function.comp_def]

/-- one section at `alpha = 0`: the new sample and the shifted history -/
theorem mglsaDff_alpha0 (d c : List K) (x : K) (hd : d.length = c.length) (hc : 2 ≤ c.length) :
    mglsaDff d x 0 c =
      (x - ((List.range (c.length - 1)).map fun i => c.getD (i + 1) 0 * d.getD i 0).sum,
        (x - ((List.range (c.length - 1)).map fun i => c.getD (i + 1) 0 * d.getD i 0).sum) ::
          d.take (c.length - 1)) := by
  cases d with
  | nil => simp at hd; omega
  | cons d0 dt =>
    have hdt : dt.length = c.length - 1 := by simp at hd; omega
    obtain ⟨h1, h2⟩ := foldl_dffStep_zero (d0 :: dt) c (List.range (c.length - 2)) (d0 * c.getD 1 0, [], d0)
    have hS : d0 * c.getD 1 0 +
          ((List.range (c.length - 2)).map fun i => (d0 :: dt).getD (i + 1) 0 * c.getD (i + 2) 0).sum =
        ((List.range (c.length - 1)).map fun i => c.getD (i + 1) 0 * (d0 :: dt).getD i 0).sum := by
      have e : c.length - 1 = (c.length - 2) + 1 := by omega
      rw [e, List.range_succ_eq_map, List.map_cons, List.sum_cons, List.map_map]
      congr 1
      · simp [mul_comm]
      · congr 1
        apply List.map_congr_left
        intro i _
        simp only [Function.comp, List.getD_cons_succ]
        ring
    rw [mglsaDff_cons, h1, h2]
    simp only [hS]
    refine Prod.ext rfl ?_
    have hc0 : c.length ≠ 0 := by omega
    simp only [if_neg hc0, dffOut, List.append_nil, List.reverse_reverse, List.getD_cons_succ]
    rw [map_getD_range dt (c.length - 2) (by omega)]
    have e1 : c.length - 1 = (c.length - 2) + 1 := by omega
    have hmid : d0 :: (dt.take (c.length - 2) ++ (d0 :: dt).drop (c.length - 1)) = d0 :: dt := by
      rw [e1, List.drop_succ_cons, List.take_append_drop]
    have hmid' : d0 :: dt.take (c.length - 2) ++ (d0 :: dt).drop (c.length - 1) = d0 :: dt := hmid
    rw [hmid', List.drop_of_length_le (by simp; omega)]
    simp

/-- `Σ a[i]·b[i]` over the zip equals the indexed sum over `a` (missing entries of `b` count as `0`) -/
theorem zip_mul_sum (a b : List K) :
    ((a.zip b).map fun p => p.1 * p.2).sum = ((List.range a.length).map fun i => a.getD i 0 * b.getD i 0).sum := by
  induction a generalizing b with
  | nil => simp
  | cons a0 a ih =>
    cases b with
    | nil =>
      simp only [List.zip_nil_right, List.map_nil, List.sum_nil, List.getD_nil, mul_zero]
      symm
      apply List.sum_eq_zero
      intro x hx
      simp only [List.mem_map] at hx
      obtain ⟨_, _, rfl⟩ := hx
      rfl
    | cons b0 b =>
      rw [List.length_cons, List.range_succ_eq_map, List.zip_cons_cons, List.map_cons, List.sum_cons,
        List.map_cons, List.sum_cons, List.map_map, ih b]
      simp [Function.comp_def]

/-- the state of one section after a run: the past outputs `hist` (most recent first), cut or zero-padded -/
def HistInv (n : Nat) (d hist : List K) : Prop :=
  d.length = n ∧ ∀ i, i < n → d.getD i 0 = hist.getD i 0

theorem mglsaDf_single (d : List K) (x alpha : K) (c : List K) :
    mglsaDf [d] x alpha c = ((mglsaDff d x alpha c).1, [(mglsaDff d x alpha c).2]) := by
  rw [mglsaDf_cons, mglsaDf_nil]

theorem mglsaRun_section_gen (c : List K) (hc : 2 ≤ c.length) (xs : List K) (d hist : List K)
    (h : HistInv c.length d hist) :
    (mglsaRun 0 c [d] xs).reverse ++ hist =
      xs.foldl (fun (hist : List K) x => (x - ((c.tail.zip hist).map fun p => p.1 * p.2).sum) :: hist) hist := by
  induction xs generalizing d hist with
  | nil => simp [mglsaRun]
  | cons x xs ih =>
    obtain ⟨hlen, hget⟩ := h
    have hS : ((List.range (c.length - 1)).map fun i => c.getD (i + 1) 0 * d.getD i 0).sum =
        ((c.tail.zip hist).map fun p => p.1 * p.2).sum := by
      rw [zip_mul_sum, List.length_tail]
      congr 1
      apply List.map_congr_left
      intro i hi
      have hi' : i < c.length - 1 := List.mem_range.1 hi
      rw [hget i (by omega)]
      congr 1
      cases c with
      | nil => simp at hc
      | cons c0 ct => simp
    simp only [mglsaRun, mglsaDf_single, mglsaDff_alpha0 d c x hlen hc, hS, List.foldl_cons,
      List.reverse_cons, List.append_assoc, List.singleton_append]
    apply ih
    refine ⟨by simp [hlen]; omega, ?_⟩
    intro i hi
    cases i with
    | zero => simp
    | succ i =>
      simp only [List.getD_cons_succ]
      rw [← hget i (by omega)]
      simp only [List.getD_eq_getElem?_getD]
      rw [List.getElem?_take_of_lt (by omega)]

/-- one MGLSA section at `alpha = 0` is the all-pole difference equation of its coefficients `c[1..]` -/
theorem mglsa_section_allpole (c : List K) (hc : 2 ≤ c.length) (xs : List K) :
    mglsaRun 0 c (mglsaInit 1 c.length) xs = allPoleRun c.tail xs := by
  have h := mglsaRun_section_gen c hc xs (List.replicate c.length 0) [] (by
    refine ⟨by simp, ?_⟩
    intro i hi
    simp [List.getD_eq_getElem?_getD, hi])
  rw [List.append_nil] at h
  unfold allPoleRun
  rw [← h, List.reverse_reverse]
  rfl

/-! ### the cascade -/

/-- the sections interact only through the signal: the first section can be run on its own -/
theorem mglsaRun_cons (alpha : K) (c : List K) (d : List K) (ds : List (List K)) (xs : List K) :
    mglsaRun alpha c (d :: ds) xs = mglsaRun alpha c ds (mglsaRun alpha c [d] xs) := by
  induction xs generalizing d ds with
  | nil => rfl
  | cons x xs ih =>
    show (mglsaDf (d :: ds) x alpha c).1 :: mglsaRun alpha c (mglsaDf (d :: ds) x alpha c).2 xs =
      mglsaRun alpha c ds ((mglsaDf [d] x alpha c).1 :: mglsaRun alpha c (mglsaDf [d] x alpha c).2 xs)
    rw [mglsaDf_single, mglsaDf_cons, ih]
    rfl

theorem mglsaRun_nil (alpha : K) (c : List K) (xs : List K) : mglsaRun alpha c [] xs = xs := by
  induction xs with
  | nil => rfl
  | cons x xs ih => simp only [mglsaRun, mglsaDf_nil, ih]

/-- `stage` sections in cascade iterate it -/
theorem mglsa_cascade_allpole (c : List K) (hc : 2 ≤ c.length) (stage : Nat) (xs : List K) :
    mglsaRun 0 c (mglsaInit stage c.length) xs = (allPoleRun c.tail)^[stage] xs := by
  induction stage generalizing xs with
  | zero => exact mglsaRun_nil 0 c xs
  | succ n ih =>
    have e : (mglsaInit (n + 1) c.length : List (List K)) =
        List.replicate c.length 0 :: mglsaInit n c.length := by
      simp [mglsaInit, List.replicate_succ]
    have e1 : (mglsaInit 1 c.length : List (List K)) = [List.replicate c.length 0] := by
      simp [mglsaInit]
    rw [e, mglsaRun_cons, ← e1, mglsa_section_allpole c hc, ih, Function.iterate_succ_apply]

/-! ### the coefficient chain -/

theorem mc2b_zero (c : List K) : mc2b (0 : K) c = c := by
  have h : isZeroS (0 : K) = true := (isZeroS_iff 0).2 rfl
  unfold mc2b
  simp [h]

/-- `lsp2lpc` (repaired) returns a non-empty list with one coefficient per frequency after the head -/
theorem lsp2lpc_shape (b : Bool) (g : K) (lsp : List K) :
    ∃ h a, lsp2lpc ⟨b, true⟩ (g :: lsp) = h :: a ∧ a.length = lsp.length := by
  rw [lsp2lpc_poly]
  unfold lspRefPoly
  simp only
  rw [List.range_succ_eq_map, List.map_cons]
  exact ⟨_, _, rfl, by simp⟩

/-- the chain after `lsp2lpc`, for an abstract gain `G`, `s = stage`, `γ = −1/s` -/
theorem lsp_chain (γ s G : K) (hγ : γ ≠ 0) (hsγ : -s * γ = 1) (a : List K)
    (hpow : Transc.pow (Transc.pow G γ) (1 / γ) = G) (hne : Transc.pow G γ ≠ 0) :
    (match gnorm γ (mc2b 0 (mgc2mgcSameAlpha
        (match ignorm γ (G :: a) with
          | [] => []
          | h :: t => h :: t.map fun x => x * -s) γ a.length γ)) with
      | [] => []
      | h :: t => h :: t.map fun x => x * γ) = G :: a := by
  have hz : isZeroS γ = false := by
    rw [Bool.eq_false_iff]; intro h; exact hγ ((isZeroS_iff γ).1 h)
  have e1 : ∀ (G' : K) (l : List K), ignorm γ (G' :: l) =
      (Transc.pow G' γ - 1) / γ :: l.map fun x => x * Transc.pow G' γ := by
    intro G' l; simp [ignorm, hz]
  have hk : 1 + γ * ((Transc.pow G γ - 1) / γ) = Transc.pow G γ := by
    field_simp; ring
  have e2 : ∀ l : List K, gnorm γ ((Transc.pow G γ - 1) / γ :: l) =
      G :: l.map fun x => x / Transc.pow G γ := by
    intro l
    simp only [gnorm, hz, Bool.not_false, if_true]
    rw [hk, hpow]
  rw [e1]
  simp only
  unfold mgc2mgcSameAlpha
  rw [e2, gc2gc_same_gamma _ _ _ (by simp), List.take_of_length_le (by simp), e1, mc2b_zero, e2]
  simp only [List.map_map]
  congr 1
  conv_rhs => rw [← List.map_id a]
  apply List.map_congr_left
  intro x _
  simp only [Function.comp, id]
  field_simp
  calc -(x * s * γ) = x * (-s * γ) := by ring
    _ = x := by rw [hsγ, mul_one]

/-- the gain the vocoder uses: `exp g` or `g`, floored at `MIN_GAIN` -/
def lspGain (useLogGain : Bool) (g : K) : K :=
  let g0 := if useLogGain then Transc.exp g else g
  if Consts.minGain < g0 then g0 else Consts.minGain

/-- **The coefficient chain collapses to `[K, a₁ … a_m]`** for `alpha = 0`, `gamma = −1/stage`. Hypotheses on the
    abstract `pow`: `(x^γ)^(1/γ) = x` and `x^γ ≠ 0` for the positive gain `x`. -/
theorem lspCoefficients_alpha0 (b useLogGain : Bool) (stage : Nat) (hs : stage ≠ 0) (g : K) (lsp : List K)
    (hmin : 0 < (Consts.minGain : K))
    (hpow : Transc.pow (Transc.pow (lspGain useLogGain g) (-1 / (stage : K))) (1 / (-1 / (stage : K))) = lspGain useLogGain g)
    (hne : Transc.pow (lspGain useLogGain g) (-1 / (stage : K)) ≠ 0) :
    lspCoefficients ⟨b, true⟩ useLogGain stage (-1 / (stage : K)) 0 (g :: lsp) =
      lspGain useLogGain g :: (lsp2lpc ⟨b, true⟩ (g :: lsp)).tail := by
  have _ := hmin
  obtain ⟨h, a, hha, hlen⟩ := lsp2lpc_shape b g lsp
  have hs' : (stage : K) ≠ 0 := Nat.cast_ne_zero.2 hs
  have hγ : (-1 / (stage : K)) ≠ 0 := div_ne_zero (by simp) hs'
  have hsγ : -(stage : K) * (-1 / (stage : K)) = 1 := by field_simp
  have key := lsp_chain (-1 / (stage : K)) (stage : K) (lspGain useLogGain g) hγ hsγ a hpow hne
  rw [hha, List.tail_cons]
  rw [← key]
  simp only [lspCoefficients, lsp2mgc, hha, List.set_cons_zero, List.getD_cons_zero, List.length_cons,
    Nat.add_sub_cancel, hlen, lspGain]
  rfl

/-- … and those `a` are the coefficients of `½(P + Q)` -/
theorem lspCoefficients_alpha0_poly (b useLogGain : Bool) (stage : Nat) (hs : stage ≠ 0) (g : K) (lsp : List K)
    (hmin : 0 < (Consts.minGain : K))
    (hpow : Transc.pow (Transc.pow (lspGain useLogGain g) (-1 / (stage : K))) (1 / (-1 / (stage : K))) = lspGain useLogGain g)
    (hne : Transc.pow (lspGain useLogGain g) (-1 / (stage : K)) ≠ 0) :
    lspCoefficients ⟨b, true⟩ useLogGain stage (-1 / (stage : K)) 0 (g :: lsp) =
      lspGain useLogGain g :: (lspRefPoly lsp).tail := by
  rw [lspCoefficients_alpha0 b useLogGain stage hs g lsp hmin hpow hne, lsp2lpc_poly]

end Jb
