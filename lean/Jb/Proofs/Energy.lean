/-
  C14, energy clause: the post-filter's gain compensation restores the energy of the (576-tap) impulse
  response exactly. `postfilter_mcp` measures the energy `e1` before and `e2` after the sharpening and adds
  `ln(e1/e2)/2` to `b[0]`; a shift of `b[0]` by `δ` shifts `c[0]` by `δ` (`b2mc`), passes through `freqt`
  unchanged in the other coefficients, and scales the whole impulse response of `exp C(z)` by `exp δ`.

  `exp`/`ln` are the abstract `Transc` operations; the laws used are hypotheses of the theorems:
  additivity of `exp`, positivity of `exp`, and `exp (ln x) = x` for positive `x`.
-/
import Jb.Proofs.Postfilter
import Jb.Proofs.Cepstrum

set_option linter.unusedSectionVars false

namespace Jb

variable {K : Type} [Field K] [LinearOrder K] [IsStrictOrderedRing K] [Transc K] [Consts K]

/-! ### helpers -/

private theorem freqtStep_go_length (alpha po pn : K) (l : List K) :
    (freqtStep.go alpha po pn l).length = l.length := by
  induction l generalizing po pn with
  | nil => rfl
  | cons gj tl ih => simp [freqtStep.go, ih]

private theorem freqtStep_length (alpha aa x : K) (g : List K) :
    (freqtStep alpha aa x g).length = g.length := by
  match g with
  | [] => rfl
  | [g0] => rfl
  | g0 :: g1 :: rest2 => simp [freqtStep, freqtStep_go_length]

private theorem freqt_fold_length (alpha aa : K) (xs g : List K) :
    (xs.foldl (fun g x => freqtStep alpha aa x g) g).length = g.length := by
  induction xs generalizing g with
  | nil => rfl
  | cons x xs ih => rw [List.foldl_cons, ih, freqtStep_length]

private theorem freqt_length (fo : Bool) (c : List K) (m2 : Nat) (alpha : K) :
    (freqt fo c m2 alpha).length = m2 + 1 := by
  unfold freqt
  simp only []
  rw [freqt_fold_length, List.length_replicate]

private theorem freqtStep_shift (alpha aa x δ : K) (g : List K) :
    freqtStep alpha aa (x + δ) g =
      (match freqtStep alpha aa x g with | [] => [] | g0 :: t => (g0 + δ) :: t) := by
  match g with
  | [] => rfl
  | [g0] =>
    simp only [freqtStep]
    congr 1
    ring
  | g0 :: g1 :: rest2 =>
    simp only [freqtStep]
    congr 1
    ring

/-- the step of the outer fold of `c2ir` -/
private def irStep (clen : Nat) (ctail : List K) (rev : List K) (n0 : Nat) : List K :=
  (((List.range (min clen (n0 + 1 + 1) - 1)).zip (ctail.zip rev)).foldl
      (fun acc (p : Nat × K × K) => acc + ((p.1 + 1 : Nat) : K) * p.2.1 * p.2.2) 0 / ((n0 + 1 : Nat) : K)) :: rev

private theorem c2ir_succ (c : List K) (n : Nat) :
    c2ir c (n + 1) =
      ((List.range n).foldl (irStep c.length (c.drop 1)) [Transc.exp (c.getD 0 0)]).reverse := rfl

private theorem inner_scale (s : K) (ks : List Nat) :
    ∀ (ct rev : List K) (acc : K),
    ((ks.zip (ct.zip (rev.map (· * s)))).foldl
      (fun acc (p : Nat × K × K) => acc + ((p.1 + 1 : Nat) : K) * p.2.1 * p.2.2) (acc * s)) =
    ((ks.zip (ct.zip rev)).foldl
      (fun acc (p : Nat × K × K) => acc + ((p.1 + 1 : Nat) : K) * p.2.1 * p.2.2) acc) * s := by
  induction ks with
  | nil => intros; simp
  | cons k ks ih =>
    intro ct rev acc
    cases ct with
    | nil => simp
    | cons c0 ct =>
      cases rev with
      | nil => simp
      | cons r0 rev =>
        simp only [List.map_cons, List.zip_cons_cons, List.foldl_cons]
        rw [← ih ct rev]
        congr 1
        ring

private theorem irStep_scale (s : K) (clen : Nat) (ctail rev : List K) (n0 : Nat) :
    irStep clen ctail (rev.map (· * s)) n0 = (irStep clen ctail rev n0).map (· * s) := by
  unfold irStep
  rw [List.map_cons]
  congr 1
  have h := inner_scale s (List.range (min clen (n0 + 1 + 1) - 1)) ctail rev 0
  rw [zero_mul] at h
  rw [h]
  ring

private theorem irFold_scale (s : K) (clen : Nat) (ctail : List K) (l : List Nat) :
    ∀ rev : List K, l.foldl (irStep clen ctail) (rev.map (· * s)) =
      (l.foldl (irStep clen ctail) rev).map (· * s) := by
  induction l with
  | nil => intro rev; rfl
  | cons n l ih =>
    intro rev
    rw [List.foldl_cons, List.foldl_cons, irStep_scale, ih]

private theorem irFold_suffix (clen : Nat) (ctail : List K) (l : List Nat) :
    ∀ rev : List K, ∃ t, l.foldl (irStep clen ctail) rev = t ++ rev := by
  induction l with
  | nil => intro rev; exact ⟨[], rfl⟩
  | cons n l ih =>
    intro rev
    rw [List.foldl_cons]
    obtain ⟨d, hd⟩ : ∃ d, irStep clen ctail rev n = d :: rev := ⟨_, rfl⟩
    rw [hd]
    obtain ⟨t, ht⟩ := ih (d :: rev)
    exact ⟨t ++ [d], by rw [ht]; simp⟩

private theorem c2ir_head (c : List K) (n : Nat) :
    ∃ t, c2ir c (n + 1) = Transc.exp (c.getD 0 0) :: t := by
  rw [c2ir_succ]
  obtain ⟨t, ht⟩ := irFold_suffix c.length (c.drop 1) (List.range n) [Transc.exp (c.getD 0 0)]
  rw [ht]
  exact ⟨t.reverse, by simp⟩

private theorem foldl_sq_ge (l : List K) : ∀ a : K, a ≤ (l.map fun x => x * x).foldl (· + ·) a := by
  induction l with
  | nil => intro a; exact le_refl a
  | cons x l ih =>
    intro a
    rw [List.map_cons, List.foldl_cons]
    exact le_trans (le_add_of_nonneg_right (mul_self_nonneg x)) (ih _)

private theorem foldl_sq_scale (s : K) (l : List K) : ∀ a : K,
    ((l.map (· * s)).map fun x => x * x).foldl (· + ·) (a * (s * s)) =
      ((l.map fun x => x * x).foldl (· + ·) a) * (s * s) := by
  induction l with
  | nil => intro a; rfl
  | cons x l ih =>
    intro a
    simp only [List.map_cons, List.foldl_cons]
    rw [← ih]
    congr 1
    ring

/-- `b2mc` moves a shift of `b[0]` to `c[0]` and nothing else -/
theorem b2mc_shift0 (alpha δ b0 : K) (rest : List K) :
    b2mc alpha ((b0 + δ) :: rest) = (match b2mc alpha (b0 :: rest) with | [] => [] | c0 :: t => (c0 + δ) :: t) := by
  cases rest with
  | nil => rfl
  | cons b1 r =>
    simp only [b2mc]
    congr 1
    ring

/-- `freqt` (repaired input order) moves a shift of `c[0]` to `g[0]` and nothing else -/
theorem freqt_shift0 (alpha δ c0 : K) (rest : List K) (m2 : Nat) :
    freqt true ((c0 + δ) :: rest) m2 alpha =
      (match freqt true (c0 :: rest) m2 alpha with | [] => [] | g0 :: t => (g0 + δ) :: t) := by
  unfold freqt
  simp only [if_true, List.reverse_cons, List.foldl_append, List.foldl_cons, List.foldl_nil]
  exact freqtStep_shift _ _ _ _ _

/-- shifting `c[0]` by `δ` scales every tap of the impulse response by `exp δ` -/
theorem c2ir_shift0 (hexp : ∀ a b : K, Transc.exp (a + b) = Transc.exp a * Transc.exp b)
    (δ c0 : K) (rest : List K) (len : Nat) :
    c2ir ((c0 + δ) :: rest) len = (c2ir (c0 :: rest) len).map (· * Transc.exp δ) := by
  cases len with
  | zero => rfl
  | succ n =>
    rw [c2ir_succ, c2ir_succ]
    simp only [List.getD_cons_zero, List.length_cons, List.drop_succ_cons, List.drop_zero]
    rw [hexp, List.map_reverse]
    have h := irFold_scale (Transc.exp δ) (rest.length + 1) rest (List.range n) [Transc.exp c0]
    rw [← h]
    rfl

/-- the energy is positive: its first tap is `exp c0 > 0` -/
theorem b2en_pos (hpos : ∀ a : K, 0 < Transc.exp a) (fx : Fix) (alpha : K) (b : List K) :
    0 < b2en fx alpha b := by
  unfold b2en sumS
  simp only []
  obtain ⟨t, ht⟩ := c2ir_head (freqt fx.freqtOrder (b2mc alpha b) 575 (-alpha)) 575
  have ht' : c2ir (freqt fx.freqtOrder (b2mc alpha b) 575 (-alpha)) 576 = _ := ht
  rw [ht', List.map_cons, List.foldl_cons, zero_add]
  exact lt_of_lt_of_le (mul_pos (hpos _) (hpos _)) (foldl_sq_ge t _)

/-- a shift of `b[0]` by `δ` multiplies the energy by `(exp δ)²` -/
theorem b2en_shift0 (hexp : ∀ a b : K, Transc.exp (a + b) = Transc.exp a * Transc.exp b)
    (b : Bool) (alpha δ b0 : K) (rest : List K) :
    b2en ⟨true, b⟩ alpha ((b0 + δ) :: rest) = b2en ⟨true, b⟩ alpha (b0 :: rest) * (Transc.exp δ * Transc.exp δ) := by
  unfold b2en sumS
  simp only []
  rw [b2mc_shift0]
  have hl1 : (b2mc alpha (b0 :: rest)).length = rest.length + 1 := by rw [b2mc_length]; rfl
  cases h1 : b2mc alpha (b0 :: rest) with
  | nil => rw [h1] at hl1; simp at hl1
  | cons c0 ct =>
    simp only []
    rw [freqt_shift0]
    have hl2 := freqt_length true (c0 :: ct) 575 (-alpha)
    cases h2 : freqt true (c0 :: ct) 575 (-alpha) with
    | nil => rw [h2] at hl2; simp at hl2
    | cons g0 gt =>
      simp only []
      rw [c2ir_shift0 hexp]
      have h := foldl_sq_scale (Transc.exp δ) (c2ir (g0 :: gt) 576) 0
      rw [zero_mul] at h
      exact h

/-- **The post-filter preserves the impulse-response energy.** -/
theorem postfilterMcp_energy
    (hexp : ∀ a b : K, Transc.exp (a + b) = Transc.exp a * Transc.exp b)
    (hpos : ∀ a : K, 0 < Transc.exp a)
    (hln : ∀ x : K, 0 < x → Transc.exp (Transc.ln x) = x)
    (b : Bool) (alpha beta : K) (c : List K) :
    b2en ⟨true, b⟩ alpha (mc2b alpha (postfilterMcp ⟨true, b⟩ alpha beta c)) = b2en ⟨true, b⟩ alpha (mc2b alpha c) := by
  by_cases hc : 0 < beta ∧ c.length > 2
  · unfold postfilterMcp
    rw [if_pos hc]
    simp only []
    rw [mc2b_b2mc]
    have hblen : (mc2b alpha c).length = c.length := mc2b_length alpha c
    generalize hb' : (((List.range (mc2b alpha c).length).zip (mc2b alpha c)).map fun (p : Nat × K) =>
      if p.1 = 1 then (mc2b alpha c).getD 1 0 - beta * alpha * (mc2b alpha c).getD 2 0
      else if p.1 ≥ 2 then p.2 * (1 + beta) else p.2) = b'
    have hlen : b'.length = c.length := by rw [← hb']; simp [hblen]
    cases b' with
    | nil => simp at hlen; omega
    | cons y0 ys =>
      simp only [List.set_cons_zero, List.getD_cons_zero]
      rw [b2en_shift0 hexp, ← hexp]
      have e1pos := b2en_pos hpos ⟨true, b⟩ alpha (mc2b alpha c)
      have e2pos := b2en_pos hpos ⟨true, b⟩ alpha (y0 :: ys)
      have h2 : ((2 : Nat) : K) = 2 := Nat.cast_ofNat
      rw [h2, add_halves, hln _ (div_pos e1pos e2pos)]
      exact mul_div_cancel₀ _ (ne_of_gt e2pos)
  · rw [postfilterMcp_noop]
    by_cases hb : 0 < beta
    · right
      have : ¬ c.length > 2 := fun h => hc ⟨hb, h⟩
      omega
    · left
      exact hb

end Jb
