/-
  C15, end to end at model level: on the log-F0 stream (vector length 1) `MlpgAdjust::create` after
  `apply_additional_half_tone(h)` returns, on every voiced frame, the trajectory without the shift plus
  `h·ln2/12` — through the maximum-likelihood solution AND the global-variance iteration — as long as no
  state mean reaches the 20 Hz .. 20 kHz clamp; unvoiced frames keep the no-data marker.

  Ingredients: `applyHalfTone` only changes the static mean of each state (`applyHalfTone_spec`), the voicing
  mask is unchanged (`applyHalfTone_mask`), the observation sequences of the shifted stream are
  `shiftStatic` of the original ones, and `par_shift` (`Jb/Proofs/GvShift.lean`).
-/
import Jb.Proofs.GvShift
import Jb.Proofs.MlpgMl

set_option linter.unusedSectionVars false

namespace Jb

variable {K : Type} [Field K] [LinearOrder K] [IsStrictOrderedRing K] [FloorRing K]
  [Transc K] [Consts K] [MlpgConsts K]

/-- no state's shifted static mean leaves the clamp range -/
def Unclamped (stream : List (StateParam K)) (h : K) : Prop :=
  ∀ st ∈ stream, ∀ p rest, st.params = p :: rest →
    (Consts.minLf0 : K) ≤ p.mean + h * Consts.halfTone ∧ p.mean + h * Consts.halfTone ≤ (Consts.maxLf0 : K)

/-! ### helper lemmas -/

theorem ht_clamp (x lo hi : K) (h1 : lo ≤ x) (h2 : x ≤ hi) : clampS x lo hi = x := by
  unfold clampS
  rw [if_neg (not_lt.mpr h1), if_neg (not_lt.mpr h2)]

theorem ht_filterBy_map {β γ : Type} (g : β → γ) (xs : List β) (mask : List Bool) :
    filterBy (xs.map g) mask = (filterBy xs mask).map g := by
  induction xs generalizing mask with
  | nil => simp [filterBy]
  | cons x xs ih =>
    cases mask with
    | nil => simp [filterBy]
    | cons b ms =>
      cases b with
      | true => rw [List.map_cons, filterBy_cons_true, filterBy_cons_true, ih, List.map_cons]
      | false => rw [List.map_cons, filterBy_cons_false, filterBy_cons_false, ih]

/-- the static window: shifting the index-0 Gaussian means shifts the observation means -/
theorem ht_windowParams_static (stream stream' : List (StateParam K)) (durs : List Nat) (mask : List Bool)
    (bd : List (Nat × Nat)) (win : List K) (h : K)
    (hs : stream'.map (fun s => withIvar (s.params.getD 0 ⟨0, 0⟩)) =
      (stream.map (fun s => withIvar (s.params.getD 0 ⟨0, 0⟩))).map
        (fun mv => (⟨mv.mean + h, mv.vari⟩ : MeanVari K))) :
    windowParams 1 stream' durs mask bd 0 win 0 =
      (windowParams 1 stream durs mask bd 0 win 0).map (fun mv => (⟨mv.mean + h, mv.vari⟩ : MeanVari K)) := by
  unfold windowParams
  simp only [Nat.mul_zero, Nat.add_zero]
  rw [hs, expand_map, List.zip_map_left, List.map_map, ← ht_filterBy_map, List.map_map]
  congr 1
  apply List.map_congr_left
  rintro ⟨mv, l, r⟩ _
  simp

/-- a dynamic window only reads Gaussians of index `wi ≥ 1` -/
theorem ht_windowParams_dynamic (stream stream' : List (StateParam K)) (durs : List Nat) (mask : List Bool)
    (bd : List (Nat × Nat)) (wi : Nat) (win : List K)
    (hs : stream'.map (fun s => withIvar (s.params.getD wi ⟨0, 0⟩)) =
      stream.map (fun s => withIvar (s.params.getD wi ⟨0, 0⟩))) :
    windowParams 1 stream' durs mask bd wi win 0 = windowParams 1 stream durs mask bd wi win 0 := by
  unfold windowParams
  simp only [Nat.one_mul, Nat.add_zero]
  rw [hs]

theorem ht_withIvar_shift (p : MeanVari K) (x : K) :
    withIvar (⟨x, p.vari⟩ : MeanVari K) = ⟨x, (withIvar p).vari⟩ := rfl

theorem ht_static_map (stream : List (StateParam K)) (h : K) (hh : h ≠ 0) (hu : Unclamped stream h)
    (hne : ∀ st ∈ stream, st.params ≠ []) :
    (applyHalfTone stream h).map (fun s => withIvar (s.params.getD 0 ⟨0, 0⟩)) =
      (stream.map (fun s => withIvar (s.params.getD 0 ⟨0, 0⟩))).map
        (fun mv => (⟨mv.mean + h * Consts.halfTone, mv.vari⟩ : MeanVari K)) := by
  rw [applyHalfTone_spec stream h hh, List.map_map, List.map_map]
  apply List.map_congr_left
  intro st hst
  rcases st with ⟨_ | ⟨p, rest⟩, msd⟩
  · exact absurd rfl (hne _ hst)
  · obtain ⟨h1, h2⟩ := hu _ hst p rest rfl
    simp only [Function.comp, List.getD_cons_zero]
    rw [ht_clamp _ _ _ h1 h2, ht_withIvar_shift]
    rfl

theorem ht_dynamic_map (stream : List (StateParam K)) (h : K) (hh : h ≠ 0) (wi : Nat) (hwi : wi ≠ 0) :
    (applyHalfTone stream h).map (fun s => withIvar (s.params.getD wi ⟨0, 0⟩)) =
      stream.map (fun s => withIvar (s.params.getD wi ⟨0, 0⟩)) := by
  rw [applyHalfTone_spec stream h hh, List.map_map]
  apply List.map_congr_left
  intro st _
  rcases st with ⟨_ | ⟨p, rest⟩, msd⟩
  · rfl
  · obtain ⟨k, rfl⟩ := Nat.exists_eq_succ_of_ne_zero hwi
    simp only [Function.comp, List.getD_cons_succ]

/-- the observation sequences of the shifted stream are the original ones with the static means moved -/
theorem createObs_halfTone (stream : List (StateParam K)) (durs : List Nat) (mask : List Bool)
    (windows : List (List K)) (h : K) (hh : h ≠ 0) (hu : Unclamped stream h)
    (hne : ∀ st ∈ stream, st.params ≠ []) (hw : windows ≠ []) (hd : durs.length ≤ stream.length) :
    createObs 1 (applyHalfTone stream h) durs mask windows 0 =
      shiftStatic (createObs 1 stream durs mask windows 0) (h * Consts.halfTone) := by
  have _ := hd
  cases windows with
  | nil => exact absurd rfl hw
  | cons w ws =>
    simp only [createObs, List.length_cons, List.range_succ_eq_map, List.zip_cons_cons, List.map_cons,
      shiftStatic]
    congr 1
    · exact ht_windowParams_static _ _ _ _ _ _ _ (ht_static_map stream h hh hu hne)
    · apply List.map_congr_left
      rintro ⟨wi, win⟩ hmem
      have hwi : wi ≠ 0 := by
        have := (List.of_mem_zip hmem).1
        simp only [List.mem_map] at this
        obtain ⟨k, _, rfl⟩ := this
        exact Nat.succ_ne_zero k
      exact ht_windowParams_dynamic _ _ _ _ _ _ _ (ht_dynamic_map stream h hh wi hwi)

theorem ht_maskFill_map {β : Type} (g : β → β) (mask : List Bool) (xs : List β) (d : β) (r : List β)
    (h : maskFill mask xs d = some r) :
    maskFill mask (xs.map g) d = some (List.zipWith (fun b x => if b then g x else x) mask r) := by
  induction mask generalizing xs r with
  | nil =>
    simp only [maskFill, Option.some.injEq] at h
    subst h
    simp [maskFill]
  | cons b ms ih =>
    cases b with
    | true =>
      cases xs with
      | nil => simp [maskFill] at h
      | cons x xs =>
        simp only [maskFill, Option.map_eq_some_iff] at h
        obtain ⟨r', hr', rfl⟩ := h
        simp [maskFill, ih xs r' hr']
    | false =>
      simp only [maskFill, Option.map_eq_some_iff] at h
      obtain ⟨r', hr', rfl⟩ := h
      simp [maskFill, ih xs r' hr']

theorem ht_calc_some (windows : List (List K)) (obs : List (List (MeanVari K))) (T : Nat) (hne : obs ≠ [])
    (hobs : ∀ o ∈ obs, o.length = T) :
    ∃ m, calcWuwWum windows obs = some m ∧ m.length = T ∧ m.wuw.length = T ∧ m.wum.length = T := by
  cases obs with
  | nil => exact absurd rfl hne
  | cons o0 os =>
    obtain ⟨m, hm, h1, h2, h3⟩ := calcWuwWum_cons windows o0 os
    have ho := hobs o0 (by simp)
    exact ⟨m, hm, h1.trans ho, h2.trans ho, h3.trans ho⟩

theorem ht_shiftStatic_ne (obs : List (List (MeanVari K))) (h : K) (hne : obs ≠ []) : shiftStatic obs h ≠ [] := by
  cases obs with
  | nil => exact absurd rfl hne
  | cons o0 os => simp [shiftStatic]

theorem ht_row_getD (n f : Nat) (g : Nat → K) (hf : f < n) :
    ((List.range n).map fun t => [g t]).getD f [] = [g f] := by
  rw [List.getD_eq_getElem _ _ (by simpa using hf)]
  simp

/-- the single column of the log-F0 stream, before and after the half-tone shift -/
theorem ht_mlCol (gw thr : K) (stream : List (StateParam K)) (gv : Option (List (MeanVari K) × List Bool))
    (windows : List (List K)) (durs : List Nat) (h : K) (hh : h ≠ 0)
    (hwf : StreamWF (⟨1, stream, gv, windows⟩ : StreamIn K)) (hstatic : windows.head? = some [1])
    (hsum : ∀ w ∈ windows.tail, w.sum = 0)
    (hd : durs.length ≤ stream.length)
    (hgv : ∀ g sw, gv = some (g, sw) → durs.length ≤ sw.length)
    (hnonneg : ∀ st ∈ stream, ∀ p ∈ st.params, 0 ≤ (withIvar p).vari)
    (hdflt : 0 ≤ (withIvar (⟨0, 0⟩ : MeanVari K)).vari)
    (hpos : ∀ st ∈ stream, 0 < (withIvar (st.params.getD 0 ⟨0, 0⟩)).vari)
    (hu : Unclamped stream h) :
    ∃ r : List K, r.length = (maskCreate stream thr durs).length ∧
      mlCol gw thr (⟨1, stream, gv, windows⟩ : StreamIn K) durs 0 = some r ∧
      mlCol gw thr (⟨1, applyHalfTone stream h, gv, windows⟩ : StreamIn K) durs 0 =
        some (List.zipWith (fun b x => if b then x + h * Consts.halfTone else x) (maskCreate stream thr durs) r) := by
  have hwne : windows ≠ [] := by
    intro h0
    rw [h0] at hstatic
    simp at hstatic
  have hne : ∀ st ∈ stream, st.params ≠ [] := by
    intro st hst h0
    have h1 : 1 * windows.length ≤ st.params.length := hwf.2 st hst
    have h2 : 1 ≤ windows.length := hwf.1
    rw [h0, List.length_nil] at h1
    omega
  have hlen := createObs_len 1 stream durs (maskCreate stream thr durs) windows 0
  have hobsT := createObs_length 1 stream thr durs windows 0 hd
  have hedge := windowParams_edgeZero 1 stream thr durs windows 0 hstatic hd
  have hhead := createObs_headD 1 stream durs (maskCreate stream thr durs) windows 0 hstatic
  have hwv : ∀ st ∈ stream, ∀ idx, 0 ≤ (withIvar (st.params.getD idx ⟨0, 0⟩)).vari := by
    intro st hst idx
    rcases Nat.lt_or_ge idx st.params.length with hi | hi
    · rw [List.getD_eq_getElem _ _ hi]
      exact hnonneg st hst _ (List.getElem_mem hi)
    · rw [List.getD_eq_default _ _ hi]
      exact hdflt
  have hnn : ∀ o ∈ createObs 1 stream durs (maskCreate stream thr durs) windows 0,
      ∀ mv ∈ o, 0 ≤ mv.vari := by
    intro o ho mv hmv
    obtain ⟨wi, win, rfl⟩ := mem_createObs _ _ _ _ _ _ _ ho
    obtain ⟨st, hst, hv | ⟨hv, _⟩⟩ := mem_windowParams _ _ _ _ _ _ _ _ _ hmv
    · rw [hv]; exact hwv st hst _
    · rw [hv]
  have hps : ∀ mv ∈ (createObs 1 stream durs (maskCreate stream thr durs) windows 0).headD [],
      0 < mv.vari := by
    intro mv hmv
    rw [hhead] at hmv
    obtain ⟨st, hst, hv | ⟨_, h0⟩⟩ := mem_windowParams _ _ _ _ _ _ _ _ _ hmv
    · rw [hv, Nat.mul_zero, Nat.zero_add]
      exact hpos st hst
    · exact absurd rfl h0
  have hml := maskCreate_length stream thr durs hd
  have hsw : ∀ g sw, gv = some (g, sw) →
      (filterBy (expand sw durs) (maskCreate stream thr durs)).length =
        ((maskCreate stream thr durs).filter id).length := by
    intro g sw hg
    apply filterBy_length
    rw [expand_length _ _ (hgv g sw hg), hml]
  have hone : createObs 1 stream durs (maskCreate stream thr durs) windows 0 ≠ [] := by
    intro h0
    rw [h0] at hlen
    exact hwne (List.length_eq_zero_iff.1 hlen.symm)
  obtain ⟨m, hm, h1, h2, h3⟩ := ht_calc_some windows _ _ hone hobsT
  obtain ⟨m', hm'⟩ : ∃ m', calcWuwWum windows
      (shiftStatic (createObs 1 stream durs (maskCreate stream thr durs) windows 0) (h * Consts.halfTone)) = some m' := by
    have hne' := ht_shiftStatic_ne _ (h * Consts.halfTone) hone
    generalize shiftStatic (createObs 1 stream durs (maskCreate stream thr durs) windows 0)
      (h * Consts.halfTone) = obs' at hne'
    cases obs' with
    | nil => exact absurd rfl hne'
    | cons o0 os => exact ⟨_, rfl⟩
  have hshift := par_shift windows _ _ hstatic hlen.symm hobsT hedge hnn hps hsum (h * Consts.halfTone) m m' hm hm'
    gv 0 gw durs (maskCreate stream thr durs) rfl hsw
  have hpar : (m.par gv 0 gw durs (maskCreate stream thr durs)).length =
      ((maskCreate stream thr durs).filter id).length :=
    par_length _ _ _ _ _ _ _ h2 h3 h1 hsw
  obtain ⟨r, hr, hrlen, -⟩ := maskFill_spec (maskCreate stream thr durs) _ Consts.nodata hpar
  refine ⟨r, hrlen, ?_, ?_⟩
  · unfold mlCol
    simp only
    rw [hm]
    exact hr
  · unfold mlCol
    simp only [applyHalfTone_mask]
    rw [createObs_halfTone stream durs _ windows h hh hu hne hwne hd, hm']
    simp only
    rw [hshift]
    exact ht_maskFill_map _ _ _ _ _ hr

/-- **C15 through MLPG and GV.** -/
theorem mlpgCreate_halfTone (gw thr : K) (s : StreamIn K) (durs : List Nat) (h : K) (hh : h ≠ 0)
    (hv : s.vectorLength = 1) (hwf : StreamWF s) (hstatic : s.windows.head? = some [1])
    (hsum : ∀ w ∈ s.windows.tail, w.sum = 0)
    (hd : durs.length ≤ s.stream.length)
    (hgv : ∀ g sw, s.gv = some (g, sw) → durs.length ≤ sw.length)
    (hnonneg : ∀ st ∈ s.stream, ∀ p ∈ st.params, 0 ≤ (withIvar p).vari)
    (hdflt : 0 ≤ (withIvar (⟨0, 0⟩ : MeanVari K)).vari)
    (hpos : ∀ st ∈ s.stream, 0 < (withIvar (st.params.getD 0 ⟨0, 0⟩)).vari)
    (hu : Unclamped s.stream h) :
    ∃ traj traj',
      mlpgCreate gw thr s durs = .ok traj ∧
      mlpgCreate gw thr { s with stream := applyHalfTone s.stream h } durs = .ok traj' ∧
      traj'.length = traj.length ∧
      ∀ f, f < traj.length →
        traj'.getD f [] =
          if (maskCreate s.stream thr durs).getD f false then (traj.getD f []).map (· + h * Consts.halfTone)
          else traj.getD f [] := by
  obtain ⟨vl, stream, gv, windows⟩ := s
  simp only at hv hstatic hsum hd hgv hnonneg hpos hu ⊢
  subst hv
  have hwf' : StreamWF ({ vectorLength := 1, stream := applyHalfTone stream h, gv := gv, windows := windows } :
      StreamIn K) := by
    refine ⟨hwf.1, ?_⟩
    intro st hst
    obtain ⟨st', hst', hl⟩ := applyHalfTone_params stream h st hst
    simp only at hl ⊢
    rw [hl]
    exact hwf.2 st' hst'
  have hd' : durs.length ≤ (applyHalfTone stream h).length := by rw [applyHalfTone_length]; exact hd
  obtain ⟨traj, htraj, hlen, -⟩ := mlpgCreate_shape_partial gw thr _ durs hwf hd hgv
  obtain ⟨traj', htraj', hlen', -⟩ := mlpgCreate_shape_partial gw thr _ durs hwf' hd' hgv
  refine ⟨traj, traj', htraj, htraj', by rw [hlen, hlen'], ?_⟩
  have e := ml_mlpgCreate_ok _ _ _ _ _ htraj
  have e' := ml_mlpgCreate_ok _ _ _ _ _ htraj'
  obtain ⟨r, hrlen, hcol, hcol'⟩ := ht_mlCol gw thr stream gv windows durs h hh hwf hstatic hsum hd hgv hnonneg
    hdflt hpos hu
  simp only [applyHalfTone_mask, List.range_one, List.map_cons, List.map_nil, hcol, hcol', Option.getD_some]
    at e e'
  intro f hf
  have hfm : f < (maskCreate stream thr durs).length := by
    rw [e] at hf
    simpa using hf
  have hfr : f < r.length := by rw [hrlen]; exact hfm
  rw [e, e', ht_row_getD _ _ _ hfm, ht_row_getD _ _ _ hfm,
    List.getD_eq_getElem _ _ (by simp [hfr, hfm]), List.getD_eq_getElem r _ hfr,
    List.getElem_zipWith, List.getD_eq_getElem _ _ hfm]
  split_ifs <;> simp

end Jb
