/-
  What an ACCEPTED voice file guarantees about the *shape* of the parsed voice (guarded reader:
  `parseVoice true bytes = .ok v`), i.e. the facts the well-formedness of the synthesis pipeline can take from the loader.

  Proved (names as requested; the statements are the requested ones unless noted):
    * `fromLinear_shape`          — means / variances have `n` entries, the MSD weight is present iff announced
    * `parsePdfBlock_shape`       — one PDF list per tree, every PDF is `fromLinear` of exactly `pdfLen` words
    * `parseModel_shape`          — `pdfs.length = trees.length`, the PDF fact, and every tree converts
                                    (`ModelShape m pdfLen` packages the three)
    * `parseVoice_streams_count`  — `streams.length = NUM_STREAMS`, `> 0`; ADDED: the stream names are `STREAM_TYPE`, in order
    * `parseVoice_duration_shape`, `parseVoice_stream_shape`, `parseVoice_gv_shape`, and `parseVoice_shape` (all four)
    * `getParameter_shape`        — the selected Gaussian is a member of `m.pdfs`; ADDED `getParameter_index` (tree index,
                                    tree state, PDF id ≥ 1, position) and `selected_shape` (the Gaussians synthesis receives
                                    from a loaded voice have the announced lengths)
    * `evalTree_total_of_wf`      — `TreeWF t`, conversion succeeded AND `t.rows ≠ []` (needed: see N5) give a total walk.
  None of the requested statements turned out false of the model; the only correction is the extra hypothesis
  `t.rows ≠ []` of item 6.

  What the reader does NOT check although the pipeline relies on it.  Each item is exhibited on ONE complete file image,
  `ParseShapeEx.exBytes`, that the guarded reader accepts — `ParseShapeEx.ex_accepted : parseVoice true exBytes = .ok exVoice`
  is checked by kernel evaluation — and the consequence is a theorem (section 7):
    N1  `NUM_WINDOWS` is never compared with the number of `STREAM_WIN` ranges (3 announced, 1 window read; an empty
        `STREAM_WIN` value gives 0 windows).  The PDF width uses the announced number.          — `ex_windows`
    N2  `VECTOR_LENGTH` and `NUM_WINDOWS` may be 0 (no positivity check on any header number): PDFs with empty
        means/variances are accepted.                                                           — `ex_zero_width`
    N3  a leaf's PDF id is not compared with the tree's PDF count (id 7, one PDF): `getParameter` is `none` for every
        label, which is the index panic of `get_parameter` at synthesis time.                     — `ex_leaf_out_of_range`
        (Id 0 is not excluded either: read off `parseChild` / `getParameter`, not exhibited.)
    N4  trees may be cyclic: `convertTree` only checks that references and question names resolve; a row may point to
        itself.  The tree is not `TreeWF` and its walk ends for no label.                       — `ex_cyclic`
    N5  a tree may have no row (`{*}[5] { }`): it converts to an empty table; index 0 is outside it. — `ex_empty_tree_and_states`
    N6  tree states are not compared with `NUM_STATES`: a state outside `2 .. nstates+1` is accepted and a needed state
        may be missing (then `getParameter` finds no tree).                                      — `ex_empty_tree_and_states`
    N7  a tree may own 0 PDFs (count word 0).                                                    — `ex_empty_tree_and_states`
    N8  a window row may hold 0 coefficients or an even number of them.                          — `ex_windows_rows`
  Also visible in `exBytes`: byte ranges of different models are not required to be disjoint or ordered.
  Distinct row ids within a tree are not required either (`convertTree` resolves a reference to the first row with that
  id); that one is read off `convertTree.convertRows`, not exhibited.
-/
import Jb.Proofs.HtsBound

set_option linter.unusedSectionVars false
set_option linter.unusedVariables false

namespace Jb.Hts

/-! ### 1. `fromLinear` -/

theorem fromLinear_shape (lin : List UInt32) (n : Nat) (msd : Bool)
    (h : lin.length = 2 * n + (if msd then 1 else 0)) :
    (fromLinear lin).means.length = n ∧ (fromLinear lin).varis.length = n ∧
      ((fromLinear lin).msd.isSome = msd) := by
  unfold fromLinear
  dsimp only
  have hlen : lin.length / 2 = n := by
    cases msd <;> simp at h <;> omega
  rw [hlen]
  refine ⟨?_, ?_, ?_⟩
  · rw [List.length_take]; omega
  · rw [List.length_take, List.length_drop]; cases msd <;> simp at h <;> omega
  · cases msd
    · have : ¬ n * 2 < lin.length := by simp at h; omega
      simp [this]
    · have : n * 2 < lin.length := by simp at h; omega
      simp [this]

/-! ### 2. PDF blocks -/

/-- every PDF of the block is `fromLinear` of exactly `pdfLen` words -/
def PdfsFrom (pdfs : List (List PdfBits)) (pdfLen : Nat) : Prop :=
  ∀ ps ∈ pdfs, ∀ p ∈ ps, ∃ lin : List UInt32, lin.length = pdfLen ∧ p = fromLinear lin

theorem pdfGo_shape (pdfLen : Nat) (counts : List Nat) (body : List UInt32) (out : List (List PdfBits))
    (h : parsePdfBlock.go pdfLen counts body = some out) :
    out.length = counts.length ∧ PdfsFrom out pdfLen ∧
      (out.map List.length = counts) := by
  induction counts generalizing body out with
  | nil =>
    rw [parsePdfBlock.go] at h
    split at h
    · cases h; exact ⟨rfl, fun ps hps => (by cases hps), rfl⟩
    · cases h
  | cons n rest ih =>
    rw [parsePdfBlock.go] at h
    split at h
    · cases h
    · next hlen =>
      obtain ⟨out', ho, rfl⟩ := Option.map_eq_some_iff.1 h
      obtain ⟨h1, h2, h3⟩ := ih _ _ ho
      refine ⟨by simp [h1], ?_, by simp [h3]⟩
      intro ps hps p hp
      rcases List.mem_cons.1 hps with rfl | hps
      · obtain ⟨i, hi, rfl⟩ := List.mem_map.1 hp
        have hi : i < n := List.mem_range.1 hi
        refine ⟨_, ?_, rfl⟩
        have hmul : i * pdfLen + pdfLen ≤ n * pdfLen := by
          have := Nat.mul_le_mul_right pdfLen (Nat.succ_le_of_lt hi)
          rw [Nat.succ_mul] at this
          exact this
        simp only [List.length_take, List.length_drop]
        omega
      · exact h2 ps hps p hp

theorem parsePdfBlock_shape (pb : List Nat) (ntree pdfLen : Nat) (pdfs : List (List PdfBits))
    (h : parsePdfBlock pb ntree pdfLen = some pdfs) :
    pdfs.length = ntree ∧
      ∀ ps ∈ pdfs, ∀ p ∈ ps, ∃ lin : List UInt32, lin.length = pdfLen ∧ p = fromLinear lin := by
  unfold parsePdfBlock at h
  split at h
  · cases h
  · next ws hw =>
    split at h
    · cases h
    · next hlt =>
      dsimp only at h
      obtain ⟨h1, h2, _⟩ := pdfGo_shape _ _ _ _ h
      refine ⟨?_, h2⟩
      rw [h1, List.length_map, List.length_take]
      omega

/-- the shape of the PDFs of a block whose PDF length is `2·n (+1 with MSD)` -/
def PdfsShape (pdfs : List (List PdfBits)) (n : Nat) (msd : Bool) : Prop :=
  ∀ ps ∈ pdfs, ∀ p ∈ ps, p.means.length = n ∧ p.varis.length = n ∧ p.msd.isSome = msd

theorem PdfsFrom.shape {pdfs : List (List PdfBits)} {pdfLen : Nat} (h : PdfsFrom pdfs pdfLen)
    (n : Nat) (msd : Bool) (hlen : pdfLen = 2 * n + (if msd then 1 else 0)) : PdfsShape pdfs n msd := by
  intro ps hps p hp
  obtain ⟨lin, hl, rfl⟩ := h ps hps p hp
  exact fromLinear_shape lin n msd (hl.trans hlen)

/-! ### 3. models -/

theorem sequenceR_map_forall₂ {α β : Type} (f : β → Res α) (l : List β) (out : List α)
    (h : sequenceR (l.map f) = .ok out) : List.Forall₂ (fun a s => f a = .ok s) l out := by
  induction l generalizing out with
  | nil =>
    simp only [List.map_nil, sequenceR] at h
    cases h
    exact List.Forall₂.nil
  | cons a l ih =>
    rw [List.map_cons, sequenceR] at h
    obtain ⟨x, hx, h⟩ := bindR_ok h
    obtain ⟨xs, hxs, h⟩ := bindR_ok h
    cases h
    exact List.Forall₂.cons hx (ih xs hxs)

theorem sequenceR_map_all_ok {α β : Type} (f : β → Res α) (l : List β) (out : List α)
    (h : sequenceR (l.map f) = .ok out) : ∀ a ∈ l, ∃ s, f a = .ok s := by
  have h2 := sequenceR_map_forall₂ f l out h
  clear h
  intro a ha
  induction h2 with
  | nil => cases ha
  | cons hx _ ih =>
    rcases List.mem_cons.1 ha with rfl | ha
    · exact ⟨_, hx⟩
    · exact ih ha

theorem forall₂_map_eq {α β : Type} (R : β → α → Prop) (g : α → β) (l : List β) (out : List α)
    (h : List.Forall₂ R l out) (hg : ∀ a s, R a s → g s = a) : out.map g = l := by
  induction h with
  | nil => rfl
  | cons hx _ ih => rw [List.map_cons, ih, hg _ _ hx]

/-- what the reader guarantees about one accepted model read with PDF length `pdfLen` -/
def ModelShape (m : FileModel) (pdfLen : Nat) : Prop :=
  m.pdfs.length = m.trees.length ∧
  (∀ ps ∈ m.pdfs, ∀ p ∈ ps, ∃ lin : List UInt32, lin.length = pdfLen ∧ p = fromLinear lin) ∧
  ∀ t ∈ m.trees, ∃ r, convertTree true m.questions t = .ok r

theorem parseModel_shape (d : List Nat) (treeR pdfR : Nat × Nat) (pdfLen : Nat) (m : FileModel)
    (h : parseModel true d treeR pdfR pdfLen = .ok m) :
    m.pdfs.length = m.trees.length ∧
    (∀ ps ∈ m.pdfs, ∀ p ∈ ps, ∃ lin : List UInt32, lin.length = pdfLen ∧ p = fromLinear lin) ∧
    ∀ t ∈ m.trees, ∃ r, convertTree true m.questions t = .ok r := by
  unfold parseModel at h
  obtain ⟨tb, htb, h⟩ := bindR_ok h
  split at h
  · cases h
  · next qs trees htt =>
    obtain ⟨pb, hpb, h⟩ := bindR_ok h
    split at h
    · cases h
    · next pdfs hpdf =>
      obtain ⟨cs, hcs, h⟩ := bindR_ok h
      cases h
      obtain ⟨h1, h2⟩ := parsePdfBlock_shape _ _ _ _ hpdf
      exact ⟨h1, h2, sequenceR_map_all_ok _ _ _ hcs⟩

theorem parseModel_modelShape (d : List Nat) (treeR pdfR : Nat × Nat) (pdfLen : Nat) (m : FileModel)
    (h : parseModel true d treeR pdfR pdfLen = .ok m) : ModelShape m pdfLen :=
  parseModel_shape d treeR pdfR pdfLen m h

theorem ModelShape.pdfsShape {m : FileModel} {pdfLen : Nat} (h : ModelShape m pdfLen)
    (n : Nat) (msd : Bool) (hlen : pdfLen = 2 * n + (if msd then 1 else 0)) : PdfsShape m.pdfs n msd :=
  PdfsFrom.shape h.2.1 n msd hlen

/-! ### 4. the voice -/

theorem checkedMul_ok (a b c : Nat) (h : checkedMul true a b = .ok c) : c = a * b ∧ a * b < 2 ^ 64 := by
  unfold checkedMul at h
  split at h
  · next hlt => cases h; exact ⟨rfl, hlt⟩
  · cases h

/-- what `parseVoice` guarantees about one stream -/
def StreamShape (s : ParsedStream) : Prop :=
  ModelShape s.model (s.info.veclen * s.info.nwin * 2 + (if s.info.isMsd then 1 else 0)) ∧
  (s.info.useGv = true → ∃ g, s.gv = some g ∧ ModelShape g (s.info.veclen * 2)) ∧
  (s.info.useGv = false → s.gv = none) ∧
  s.info.veclen * s.info.nwin * 2 < 2 ^ 64

theorem parseVoice_shape_inv (bytes : List Nat) (v : ParsedVoice) (h : parseVoice true bytes = .ok v) :
    ModelShape v.duration (v.global.nstates * 2) ∧
    v.global.streamType ≠ [] ∧ v.global.nstreams = v.global.streamType.length ∧
    v.streams.map (·.name) = v.global.streamType ∧
    ∀ s ∈ v.streams, StreamShape s := by
  unfold parseVoice at h
  obtain ⟨⟨gb, sb, pb, d⟩, hsplit, h⟩ := bindR_ok h
  dsimp only at h
  split at h
  · cases h
  obtain ⟨g, hg, h⟩ := bindR_ok h
  obtain ⟨skv, hskv, h⟩ := bindR_ok h
  obtain ⟨pkv, hpkv, h⟩ := bindR_ok h
  obtain ⟨dpdf, _, h⟩ := bindR_ok h
  obtain ⟨dtree, _, h⟩ := bindR_ok h
  obtain ⟨durLen, hdl, h⟩ := bindR_ok h
  obtain ⟨dur, hdur, h⟩ := bindR_ok h
  split at h
  · cases h
  next hne =>
  split at h
  · rw [if_pos rfl] at h; cases h
  next hns =>
  obtain ⟨streams, hstreams, h⟩ := bindR_ok h
  cases h
  obtain ⟨rfl, _⟩ := checkedMul_ok _ _ _ hdl
  have hf2 := sequenceR_map_forall₂ _ _ _ hstreams
  obtain ⟨hlen, hmem⟩ := sequenceR_map_ok _ _ _ hstreams
  refine ⟨parseModel_modelShape _ _ _ _ _ hdur, ?_, by simpa using hns, ?_, ?_⟩
  · intro h0; rw [h0] at hne; simp at hne
  · dsimp only
    refine forall₂_map_eq _ _ _ _ hf2 ?_
    intro name s hx
    split at hx
    · cases hx
    split at hx
    · cases hx
    obtain ⟨pos, hpos, hx⟩ := bindR_ok hx
    obtain ⟨sm, _, hx⟩ := bindR_ok hx
    obtain ⟨vw, hvw, hx⟩ := bindR_ok hx
    obtain ⟨vw2, hvw2, hx⟩ := bindR_ok hx
    obtain ⟨model, hmodel, hx⟩ := bindR_ok hx
    obtain ⟨gv, hgv, hx⟩ := bindR_ok hx
    obtain ⟨wins, hwins, hx⟩ := bindR_ok hx
    cases hx
    rfl
  intro s hs
  obtain ⟨name, _, hx⟩ := hmem s hs
  split at hx
  · cases hx
  split at hx
  · cases hx
  obtain ⟨pos, hpos, hx⟩ := bindR_ok hx
  obtain ⟨sm, _, hx⟩ := bindR_ok hx
  obtain ⟨vw, hvw, hx⟩ := bindR_ok hx
  obtain ⟨vw2, hvw2, hx⟩ := bindR_ok hx
  obtain ⟨model, hmodel, hx⟩ := bindR_ok hx
  obtain ⟨gv, hgv, hx⟩ := bindR_ok hx
  obtain ⟨wins, hwins, hx⟩ := bindR_ok hx
  cases hx
  obtain ⟨rfl, _⟩ := checkedMul_ok _ _ _ hvw
  obtain ⟨rfl, hlt⟩ := checkedMul_ok _ _ _ hvw2
  refine ⟨parseModel_modelShape _ _ _ _ _ hmodel, ?_, ?_, hlt⟩
  · intro hu
    dsimp only at hu ⊢
    rw [hu] at hgv
    simp only [if_true] at hgv
    split at hgv
    · obtain ⟨gl, hgl, hgv⟩ := bindR_ok hgv
      obtain ⟨m', hm', hgv⟩ := bindR_ok hgv
      cases hgv
      obtain ⟨rfl, _⟩ := checkedMul_ok _ _ _ hgl
      exact ⟨m', rfl, parseModel_modelShape _ _ _ _ _ hm'⟩
    · cases hgv
  · intro hu
    dsimp only at hu ⊢
    rw [hu] at hgv
    simp only [Bool.false_eq_true, if_false] at hgv
    cases hgv
    rfl

theorem isSome_false_eq_none {α : Type} (o : Option α) (h : o.isSome = false) : o = none := by
  cases o with
  | none => rfl
  | some _ => cases h

/-- 4a. the stream list has `NUM_STREAMS` entries, at least one, named as `STREAM_TYPE` lists them -/
theorem parseVoice_streams_count (bytes : List Nat) (v : ParsedVoice) (h : parseVoice true bytes = .ok v) :
    v.streams.length = v.global.nstreams ∧ 0 < v.streams.length ∧
      v.streams.map (·.name) = v.global.streamType := by
  obtain ⟨_, hne, hns, hnames, _⟩ := parseVoice_shape_inv bytes v h
  have hl : v.streams.length = v.global.streamType.length := by
    rw [← hnames, List.length_map]
  refine ⟨by omega, ?_, hnames⟩
  rw [hl]
  exact List.length_pos_iff.2 hne

/-- 4b (+4e). the duration model -/
theorem parseVoice_duration_shape (bytes : List Nat) (v : ParsedVoice) (h : parseVoice true bytes = .ok v) :
    (∀ ps ∈ v.duration.pdfs, ∀ p ∈ ps,
      p.means.length = v.global.nstates ∧ p.varis.length = v.global.nstates ∧ p.msd = none) ∧
    v.duration.pdfs.length = v.duration.trees.length ∧
    ∀ t ∈ v.duration.trees, ∃ r, convertTree true v.duration.questions t = .ok r := by
  obtain ⟨hd, _⟩ := parseVoice_shape_inv bytes v h
  refine ⟨?_, hd.1, hd.2.2⟩
  intro ps hps p hp
  obtain ⟨h1, h2, h3⟩ := hd.pdfsShape v.global.nstates false (by simp; omega) ps hps p hp
  exact ⟨h1, h2, isSome_false_eq_none _ h3⟩

/-- 4c (+4e). the model of every stream -/
theorem parseVoice_stream_shape (bytes : List Nat) (v : ParsedVoice) (h : parseVoice true bytes = .ok v) :
    ∀ s ∈ v.streams,
      (∀ ps ∈ s.model.pdfs, ∀ p ∈ ps,
        p.means.length = s.info.veclen * s.info.nwin ∧ p.varis.length = s.info.veclen * s.info.nwin ∧
        p.msd.isSome = s.info.isMsd) ∧
      s.model.pdfs.length = s.model.trees.length ∧
      ∀ t ∈ s.model.trees, ∃ r, convertTree true s.model.questions t = .ok r := by
  obtain ⟨_, _, _, _, hs⟩ := parseVoice_shape_inv bytes v h
  intro s hsm
  obtain ⟨hm, _, _, _⟩ := hs s hsm
  exact ⟨hm.pdfsShape (s.info.veclen * s.info.nwin) s.info.isMsd (by omega), hm.1, hm.2.2⟩

/-- 4d (+4e). the GV model of every stream: present exactly when `USE_GV` is set -/
theorem parseVoice_gv_shape (bytes : List Nat) (v : ParsedVoice) (h : parseVoice true bytes = .ok v) :
    ∀ s ∈ v.streams,
      (s.info.useGv = true → ∃ g, s.gv = some g ∧
        (∀ ps ∈ g.pdfs, ∀ p ∈ ps,
          p.means.length = s.info.veclen ∧ p.varis.length = s.info.veclen ∧ p.msd = none) ∧
        g.pdfs.length = g.trees.length ∧
        ∀ t ∈ g.trees, ∃ r, convertTree true g.questions t = .ok r) ∧
      (s.info.useGv = false → s.gv = none) := by
  obtain ⟨_, _, _, _, hs⟩ := parseVoice_shape_inv bytes v h
  intro s hsm
  obtain ⟨_, hg, hn, _⟩ := hs s hsm
  refine ⟨?_, hn⟩
  intro hu
  obtain ⟨g, hgv, hm⟩ := hg hu
  refine ⟨g, hgv, ?_, hm.1, hm.2.2⟩
  intro ps hps p hp
  obtain ⟨h1, h2, h3⟩ := hm.pdfsShape s.info.veclen false (by simp; omega) ps hps p hp
  exact ⟨h1, h2, isSome_false_eq_none _ h3⟩

/-- 4. all of it in one statement -/
theorem parseVoice_shape (bytes : List Nat) (v : ParsedVoice) (h : parseVoice true bytes = .ok v) :
    (v.streams.length = v.global.nstreams ∧ 0 < v.streams.length) ∧
    ((∀ ps ∈ v.duration.pdfs, ∀ p ∈ ps,
        p.means.length = v.global.nstates ∧ p.varis.length = v.global.nstates ∧ p.msd = none) ∧
      v.duration.pdfs.length = v.duration.trees.length ∧
      ∀ t ∈ v.duration.trees, ∃ r, convertTree true v.duration.questions t = .ok r) ∧
    (∀ s ∈ v.streams,
      (∀ ps ∈ s.model.pdfs, ∀ p ∈ ps,
        p.means.length = s.info.veclen * s.info.nwin ∧ p.varis.length = s.info.veclen * s.info.nwin ∧
        p.msd.isSome = s.info.isMsd) ∧
      s.model.pdfs.length = s.model.trees.length ∧
      ∀ t ∈ s.model.trees, ∃ r, convertTree true s.model.questions t = .ok r) ∧
    (∀ s ∈ v.streams,
      (s.info.useGv = true → ∃ g, s.gv = some g ∧
        (∀ ps ∈ g.pdfs, ∀ p ∈ ps,
          p.means.length = s.info.veclen ∧ p.varis.length = s.info.veclen ∧ p.msd = none) ∧
        g.pdfs.length = g.trees.length ∧
        ∀ t ∈ g.trees, ∃ r, convertTree true g.questions t = .ok r) ∧
      (s.info.useGv = false → s.gv = none)) :=
  ⟨⟨(parseVoice_streams_count bytes v h).1, (parseVoice_streams_count bytes v h).2.1⟩,
   parseVoice_duration_shape bytes v h, parseVoice_stream_shape bytes v h, parseVoice_gv_shape bytes v h⟩

/-! ### 5. selection -/

theorem getParameter_shape (m : FileModel) (k : Nat) (label : List Char) (ti id : Nat) (p : PdfBits)
    (h : getParameter m k label = some (ti, id, p)) : ∃ ps ∈ m.pdfs, p ∈ ps := by
  unfold getParameter at h
  dsimp only at h
  split at h
  · cases h
  · next ti' _ =>
    split at h
    · cases h
    · split at h
      · cases h
      · next kk _ =>
        split at h
        · cases h
        · split at h
          · cases h
          · next p' hp =>
            simp only [Option.some.injEq, Prod.mk.injEq] at h
            obtain ⟨_, _, rfl⟩ := h
            obtain ⟨ps, hps, hpk⟩ := Option.bind_eq_some_iff.1 hp
            exact ⟨ps, List.mem_of_getElem? hps, List.mem_of_getElem? hpk⟩

/-- more precisely: the tree index, the PDF id and the position of the selected Gaussian -/
theorem getParameter_index (m : FileModel) (k : Nat) (label : List Char) (ti id : Nat) (p : PdfBits)
    (h : getParameter m k label = some (ti, id, p)) :
    2 ≤ ti ∧ 1 ≤ id ∧ ∃ t ps, m.trees[ti - 2]? = some t ∧ t.state = k ∧ evalTree m.questions t label = some id ∧
      m.pdfs[ti - 2]? = some ps ∧ ps[id - 1]? = some p := by
  unfold getParameter at h
  dsimp only at h
  split at h
  · cases h
  · next ti' hidx =>
    split at h
    · cases h
    · next t ht =>
      split at h
      · cases h
      · next kk hev =>
        split at h
        · cases h
        · next hk0 =>
          split at h
          · cases h
          · next p' hp =>
            simp only [Option.some.injEq, Prod.mk.injEq] at h
            obtain ⟨rfl, rfl, rfl⟩ := h
            obtain ⟨ps, hps, hpk⟩ := Option.bind_eq_some_iff.1 hp
            obtain ⟨x, hx, hx2⟩ := Option.map_eq_some_iff.1 hidx
            have hfs := List.find?_some hx
            have hmem := List.mem_of_find?_eq_some hx
            obtain ⟨i, hi, hxi⟩ := List.getElem_of_mem hmem
            rw [List.getElem_zip] at hxi
            simp only [List.getElem_range] at hxi
            have hst : t.state = k := by
              have h1 : x.1 = t := by
                have : m.trees[x.2]? = some x.1 := by
                  rw [← hxi]; dsimp only
                  exact List.getElem?_eq_getElem _
                rw [hx2] at this
                rw [ht] at this
                exact (Option.some.inj this).symm
              rw [← h1]; simpa using hfs
            refine ⟨by omega, by omega, t, ps, by simpa using ht, hst, hev, by simpa using hps, hpk⟩

/-- the Gaussians synthesis receives from a loaded voice have the shape the headers announce -/
theorem selected_shape (bytes : List Nat) (v : ParsedVoice) (h : parseVoice true bytes = .ok v)
    (k : Nat) (label : List Char) (ti id : Nat) (p : PdfBits) :
    (getParameter v.duration k label = some (ti, id, p) →
      p.means.length = v.global.nstates ∧ p.varis.length = v.global.nstates ∧ p.msd = none) ∧
    (∀ s ∈ v.streams, getParameter s.model k label = some (ti, id, p) →
      p.means.length = s.info.veclen * s.info.nwin ∧ p.varis.length = s.info.veclen * s.info.nwin ∧
      p.msd.isSome = s.info.isMsd) ∧
    (∀ s ∈ v.streams, ∀ g, s.gv = some g → getParameter g k label = some (ti, id, p) →
      p.means.length = s.info.veclen ∧ p.varis.length = s.info.veclen ∧ p.msd = none) := by
  refine ⟨?_, ?_, ?_⟩
  · intro hg
    obtain ⟨ps, hps, hp⟩ := getParameter_shape _ _ _ _ _ _ hg
    exact (parseVoice_duration_shape bytes v h).1 ps hps p hp
  · intro s hs hg
    obtain ⟨ps, hps, hp⟩ := getParameter_shape _ _ _ _ _ _ hg
    exact (parseVoice_stream_shape bytes v h s hs).1 ps hps p hp
  · intro s hs g hgv hg
    obtain ⟨ps, hps, hp⟩ := getParameter_shape _ _ _ _ _ _ hg
    have hgs := parseVoice_gv_shape bytes v h s hs
    cases hu : s.info.useGv with
    | false => rw [hgs.2 hu] at hgv; cases hgv
    | true =>
      obtain ⟨g', hg', hshape, _⟩ := hgs.1 hu
      rw [hgv] at hg'
      cases hg'
      exact hshape ps hps p hp

/-! ### 6. the walk of an accepted, well-formed, non-empty tree is total -/

theorem evalTree_total_of_wf (qs : Questions) (t : FileTree) (hwf : TreeWF t) (hne : t.rows ≠ [])
    (r : Nat × List TNode) (hc : convertTree true qs t = .ok r) (label : List Char) :
    ∃ k, evalTree qs t label = some k := by
  by_cases hs : t.rows.length = 1 ∧ ∃ r, t.rows = [r] ∧ r.yes = r.no
  · obtain ⟨_, r0, hr0, hyn⟩ := hs
    obtain ⟨st, rows⟩ := t
    dsimp only at hr0
    subst hr0
    unfold convertTree at hc
    dsimp only at hc
    have hb : (r0.yes == r0.no) = true := (child_beq_iff _ _).2 hyn
    rw [if_pos hb] at hc
    cases hy : r0.yes with
    | pdf k =>
      refine ⟨k, ?_⟩
      have hb' : (Child.pdf k == r0.no) = true := by rw [← hy]; exact hb
      unfold evalTree
      simp [hb', hy]
    | node id =>
      rw [hy] at hc
      simp at hc
  · obtain ⟨st, nodes⟩ := r
    exact (search_refines_eval qs t st nodes hwf hne hs hc label).2

/-! ### 7. what the reader does NOT check: one accepted file, kernel-checked

`exBytes` is a complete `.htsvoice` image (header text, then the data section).  `ex_accepted` is proved by kernel
evaluation of the reader model (`decide +kernel`: the kernel itself reduces the term, no compiled code is trusted), so every "accepted although …" claim of the header
comment is a theorem about `parseVoice true`. -/

namespace ParseShapeEx

deriving instance DecidableEq for Row, FileTree, PdfBits, FileModel, HStream, HGlobal, ParsedStream, ParsedVoice
deriving instance DecidableEq for Jb.Outcome

def exHeader : String :=
  "[GLOBAL]\nHTS_VOICE_VERSION:1.0\nSAMPLING_FREQUENCY:48000\nFRAME_PERIOD:240\nNUM_STATES:2\nNUM_STREAMS:2\n" ++
  "STREAM_TYPE:MCP,LF0\nFULLCONTEXT_FORMAT:HTS_TTS_JPN\nFULLCONTEXT_VERSION:1.0\nGV_OFF_CONTEXT:\nCOMMENT:\n" ++
  "[STREAM]\nVECTOR_LENGTH[MCP]:1\nNUM_WINDOWS[MCP]:3\nIS_MSD[MCP]:0\nUSE_GV[MCP]:0\nOPTION[MCP]:\n" ++
  "VECTOR_LENGTH[LF0]:0\nNUM_WINDOWS[LF0]:0\nIS_MSD[LF0]:1\nUSE_GV[LF0]:0\nOPTION[LF0]:\n" ++
  "[POSITION]\nDURATION_PDF:11-30\nDURATION_TREE:0-10\n" ++
  "STREAM_WIN[MCP]:111-115\nSTREAM_PDF[MCP]:79-110\nSTREAM_TREE[MCP]:31-78\n" ++
  "STREAM_WIN[LF0]:\nSTREAM_PDF[LF0]:116-123\nSTREAM_TREE[LF0]:124-134\n[DATA]\n"

/-- the UTF-8 bytes of `exHeader`, written out (the kernel evaluates `String.toUTF8` on a 668-character literal very
    slowly: 40 s).  `ex_accepted` below is about these numbers and needs nothing else; the `#guard` after this
    definition (evaluated, not a kernel proof — it only documents that the numbers spell `exHeader`) ties them to the text -/
def exHeaderBytes : List Nat :=
  [91, 71, 76, 79, 66, 65, 76, 93, 10, 72, 84, 83, 95, 86, 79, 73, 67, 69, 95, 86, 69, 82, 83, 73, 79, 78, 58, 49,
   46, 48, 10, 83, 65, 77, 80, 76, 73, 78, 71, 95, 70, 82, 69, 81, 85, 69, 78, 67, 89, 58, 52, 56, 48, 48, 48, 10,
   70, 82, 65, 77, 69, 95, 80, 69, 82, 73, 79, 68, 58, 50, 52, 48, 10, 78, 85, 77, 95, 83, 84, 65, 84, 69, 83, 58,
   50, 10, 78, 85, 77, 95, 83, 84, 82, 69, 65, 77, 83, 58, 50, 10, 83, 84, 82, 69, 65, 77, 95, 84, 89, 80, 69, 58,
   77, 67, 80, 44, 76, 70, 48, 10, 70, 85, 76, 76, 67, 79, 78, 84, 69, 88, 84, 95, 70, 79, 82, 77, 65, 84, 58, 72,
   84, 83, 95, 84, 84, 83, 95, 74, 80, 78, 10, 70, 85, 76, 76, 67, 79, 78, 84, 69, 88, 84, 95, 86, 69, 82, 83, 73,
   79, 78, 58, 49, 46, 48, 10, 71, 86, 95, 79, 70, 70, 95, 67, 79, 78, 84, 69, 88, 84, 58, 10, 67, 79, 77, 77, 69,
   78, 84, 58, 10, 91, 83, 84, 82, 69, 65, 77, 93, 10, 86, 69, 67, 84, 79, 82, 95, 76, 69, 78, 71, 84, 72, 91, 77,
   67, 80, 93, 58, 49, 10, 78, 85, 77, 95, 87, 73, 78, 68, 79, 87, 83, 91, 77, 67, 80, 93, 58, 51, 10, 73, 83, 95,
   77, 83, 68, 91, 77, 67, 80, 93, 58, 48, 10, 85, 83, 69, 95, 71, 86, 91, 77, 67, 80, 93, 58, 48, 10, 79, 80, 84,
   73, 79, 78, 91, 77, 67, 80, 93, 58, 10, 86, 69, 67, 84, 79, 82, 95, 76, 69, 78, 71, 84, 72, 91, 76, 70, 48, 93,
   58, 48, 10, 78, 85, 77, 95, 87, 73, 78, 68, 79, 87, 83, 91, 76, 70, 48, 93, 58, 48, 10, 73, 83, 95, 77, 83, 68,
   91, 76, 70, 48, 93, 58, 49, 10, 85, 83, 69, 95, 71, 86, 91, 76, 70, 48, 93, 58, 48, 10, 79, 80, 84, 73, 79, 78,
   91, 76, 70, 48, 93, 58, 10, 91, 80, 79, 83, 73, 84, 73, 79, 78, 93, 10, 68, 85, 82, 65, 84, 73, 79, 78, 95, 80,
   68, 70, 58, 49, 49, 45, 51, 48, 10, 68, 85, 82, 65, 84, 73, 79, 78, 95, 84, 82, 69, 69, 58, 48, 45, 49, 48, 10,
   83, 84, 82, 69, 65, 77, 95, 87, 73, 78, 91, 77, 67, 80, 93, 58, 49, 49, 49, 45, 49, 49, 53, 10, 83, 84, 82, 69,
   65, 77, 95, 80, 68, 70, 91, 77, 67, 80, 93, 58, 55, 57, 45, 49, 49, 48, 10, 83, 84, 82, 69, 65, 77, 95, 84, 82,
   69, 69, 91, 77, 67, 80, 93, 58, 51, 49, 45, 55, 56, 10, 83, 84, 82, 69, 65, 77, 95, 87, 73, 78, 91, 76, 70, 48,
   93, 58, 10, 83, 84, 82, 69, 65, 77, 95, 80, 68, 70, 91, 76, 70, 48, 93, 58, 49, 49, 54, 45, 49, 50, 51, 10, 83,
   84, 82, 69, 65, 77, 95, 84, 82, 69, 69, 91, 76, 70, 48, 93, 58, 49, 50, 52, 45, 49, 51, 52, 10, 91, 68, 65, 84,
   65, 93, 10]

#guard bytesOf exHeader == exHeaderBytes

/-- data section: duration tree (bytes 0-10), duration PDFs (11-30: one PDF of 4 words), MCP trees (31-78: one question,
    a one-row tree for state 2 whose "yes" child is the row itself, a tree for state 5 with no row), MCP PDFs (79-110:
    counts 1 and 0, one PDF of 6 words), ONE window row (111-115), LF0 PDFs (116-123), LF0 tree (124-134) -/
def exBytes : List Nat :=
  exHeaderBytes ++
  bytesOf "{*}[2] d_7\n" ++ ([1,0,0,0] ++ List.replicate 16 0) ++
  bytesOf "QS Q { \"*\" }\n{*}[2]\n{\n 0 Q \"m_1\" 0\n}\n{*}[5] { }\n" ++ ([1,0,0,0, 0,0,0,0] ++ List.replicate 24 0) ++
  bytesOf "1 1.0" ++ [1,0,0,0, 0,0,0,0] ++ bytesOf "{*}[2] f_1\n"

def exDur : FileModel :=
  { questions := [],
    trees := [{ state := 2, rows := [{ id := 0, qname := "", no := .pdf 7, yes := .pdf 7 }] }],
    pdfs := [[{ means := [0, 0], varis := [0, 0], msd := none }]] }

def exCyc : FileTree := { state := 2, rows := [{ id := 0, qname := "Q", no := .pdf 1, yes := .node 0 }] }

def exMcp : FileModel :=
  { questions := [("Q", [['*']])],
    trees := [exCyc, { state := 5, rows := [] }],
    pdfs := [[{ means := [0, 0, 0], varis := [0, 0, 0], msd := none }], []] }

def exLf0 : FileModel :=
  { questions := [],
    trees := [{ state := 2, rows := [{ id := 0, qname := "", no := .pdf 1, yes := .pdf 1 }] }],
    pdfs := [[{ means := [], varis := [], msd := some 0 }]] }

def exVoice : ParsedVoice :=
  { global := { version := "1.0", sr := 48000, fp := 240, nstates := 2, nstreams := 2, streamType := ["MCP", "LF0"],
                fmt := "HTS_TTS_JPN", fver := "1.0", gvOff := [] },
    duration := exDur,
    streams := [
      { name := "MCP", info := { veclen := 1, nwin := 3, isMsd := false, useGv := false, option := [] },
        model := exMcp, gv := none, windows := [["1.0"]] },
      { name := "LF0", info := { veclen := 0, nwin := 0, isMsd := true, useGv := false, option := [] },
        model := exLf0, gv := none, windows := [] }] }

/-- **the guarded reader accepts `exBytes`** and returns exactly `exVoice` -/
theorem ex_accepted : parseVoice true exBytes = .ok exVoice := by decide +kernel

/-- (N1) `NUM_WINDOWS` is not compared with the number of `STREAM_WIN` ranges: 3 announced / 1 read, 0 announced / 0 read
    (and the PDF width `veclen * nwin` follows the announced number) -/
theorem ex_windows : exVoice.streams.map (fun s => (s.info.nwin, s.windows.length)) = [(3, 1), (0, 0)] := rfl

/-- (N2) `VECTOR_LENGTH`, `NUM_WINDOWS` may be 0: the LF0 stream is accepted with empty means and variances -/
theorem ex_zero_width : exVoice.streams.map (fun s => (s.info.veclen, s.info.nwin,
    s.model.pdfs.map (·.map fun p => (p.means.length, p.varis.length)))) =
    [(1, 3, [[(3, 3)], []]), (0, 0, [[(0, 0)]])] := rfl

/-- (N3) a leaf's PDF id is not compared with the tree's PDF count: the duration tree selects id 7 of 1 PDF, so the
    lookup fails for every label (the code's index panic at synthesis time) -/
theorem ex_leaf_out_of_range (label : List Char) :
    (exDur.trees.map fun t => evalTree exDur.questions t label) = [some 7] ∧ exDur.pdfs.map List.length = [1] ∧
    getParameter exVoice.duration 2 label = none := ⟨rfl, rfl, rfl⟩

theorem glob_star (s : List Char) : glob ['*'] s = true := by
  refine glob_complete _ _ ?_
  induction s with
  | nil => exact .star_skip .nil
  | cons c s ih => exact .star_eat ih

/-- (N4) trees may be cyclic: the accepted MCP tree for state 2 converts (all references resolve, the question is
    known), is not `TreeWF`, and its walk does not terminate for any label (the specification walk runs out of fuel) -/
theorem ex_cyclic (label : List Char) :
    (∃ r, convertTree true exMcp.questions exCyc = .ok r) ∧ ¬ TreeWF exCyc ∧
    evalTree exMcp.questions exCyc label = none ∧ getParameter exMcp 2 label = none := by
  have hev : evalTree exMcp.questions exCyc label = none := by
    simp [evalTree, evalChild, exCyc, exMcp, findRow, lookupQ, questionTest, glob_star, child_beq_iff]
  refine ⟨⟨_, rfl⟩, ?_, hev, ?_⟩
  · intro hwf
    obtain ⟨j, hj, hjr⟩ := (hwf.2 0 _ rfl).1 0 rfl
    have : exCyc.rows[j]? = none := by
      rw [List.getElem?_eq_none_iff]; simp [exCyc]; omega
    rw [this] at hjr
    cases hjr
  · have : getParameter exMcp 2 label = match evalTree exMcp.questions exCyc label with
        | none => none
        | some k => if k = 0 then none else
          match (exMcp.pdfs[0]?).bind (·[k - 1]?) with
          | none => none
          | some p => some (0 + 2, k, p) := rfl
    rw [this, hev]

/-- (N5) a tree may have no row at all (`{*}[5] { }`): it converts to the empty table, and no label selects anything;
    (N6) tree states are not compared with `NUM_STATES` (= 2 here: states 2 and 3 are needed): state 5 is present,
    state 3 is missing; (N7) a tree may own 0 PDFs -/
theorem ex_empty_tree_and_states (label : List Char) :
    convertTree true exMcp.questions ⟨5, []⟩ = .ok (5, []) ∧ evalTree exMcp.questions ⟨5, []⟩ label = none ∧
    exVoice.global.nstates = 2 ∧ exMcp.trees.map (·.state) = [2, 5] ∧ exMcp.pdfs.map List.length = [1, 0] ∧
    getParameter exMcp 5 label = none ∧ getParameter exMcp 3 label = none := ⟨rfl, rfl, rfl, rfl, rfl, rfl, rfl⟩

/-- (N8) a window row may hold no coefficient, or an even number of them -/
theorem ex_windows_rows : parseWindow [48] = some [] ∧ (parseWindow (bytesOf "2 1 1")).map List.length = some 2 := by
  decide +kernel

/-- the positive side on the same file: the LF0 model is fine, and selection returns a Gaussian of the announced shape -/
theorem ex_lf0 (label : List Char) :
    getParameter exLf0 2 label = some (2, 1, { means := [], varis := [], msd := some 0 }) := rfl

end ParseShapeEx

end Jb.Hts

