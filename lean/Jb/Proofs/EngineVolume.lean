/-
  C16 at the level of the whole pipeline model: `Engine::synthesize` with linear gain `g` returns, sample by
  sample, `g` times what it returns with gain 1 — durations, trajectories and the vocoder state do not see the
  volume, and every frame scales (`vocoderSynth_volume`). With `set_volume(v dB)` storing `exp(v·ln10/20)` this is
  the property's "volume is a pure gain of 10^(v/20)".
-/
import Jb.Proofs.Total
import Jb.Proofs.Postfilter

set_option linter.unusedSectionVars false

namespace Jb

variable {K : Type} [Field K] [LinearOrder K] [IsStrictOrderedRing K] [FloorRing K]
  [Transc K] [Consts K] [MlpgConsts K]

/-- nothing before the vocoder reads the volume -/
theorem engineParams_volume (c : Condition K) (g : K) (b : Bool) (inp : EngineIn K) :
    engineParams { c with volume := g } b inp = engineParams c b inp := by
  have hd : engineDurations { c with volume := g } b inp = engineDurations c b inp :=
    engineDurations_congr _ _ b inp rfl rfl
  have hs : ∀ durs i, engineStream { c with volume := g } inp durs i = engineStream c inp durs i :=
    fun durs i => engineStream_congr _ _ inp durs i rfl rfl (fun _ => rfl)
  unfold engineParams
  rw [hd]
  simp only [hs]

/-- one frame at volume `g`: the samples of the frame at volume 1 scaled, same next state up to the volume -/
theorem vocoderFrame_volume (fx : Fix) (fp : Nat) (v : VocoderSt K) (g : K) (f : List K × List K × List K) :
    vocoderFrame fx fp { v with volume := g } f =
      ({ (vocoderFrame fx fp { v with volume := 1 } f).1 with volume := g },
       (vocoderFrame fx fp { v with volume := 1 } f).2.map (· * g)) := by
  have h := vocoderSynth_volume fx { v with fperiod := fp } g (f.2.1.getD 0 0) f.1 f.2.2
  unfold vocoderFrame
  simp only
  rw [h]

/-- the whole rendering at volume `g` is the rendering at volume 1 scaled by `g` -/
theorem render_vocoderFrame_volume (fx : Fix) (fp : Nat) (g : K) (frames : List (List K × List K × List K))
    (v : VocoderSt K) :
    Gen.render (vocoderFrame fx fp) { v with volume := g } frames =
      (Gen.render (vocoderFrame fx fp) { v with volume := 1 } frames).map (· * g) := by
  induction frames generalizing v with
  | nil => simp [Gen.render]
  | cons f fs ih =>
    simp only [Gen.render, List.map_append]
    rw [vocoderFrame_volume fx fp v g f]
    simp only
    rw [ih]
    have hv : ({ (vocoderFrame fx fp { v with volume := 1 } f).1 with volume := (1 : K) } : VocoderSt K)
        = (vocoderFrame fx fp { v with volume := 1 } f).1 := by
      have h2 := congrArg Prod.fst (vocoderFrame_volume fx fp v 1 f)
      simp only at h2
      exact h2.symm
    rw [hv]

/-- **Volume is a pure gain of the whole synthesis.** -/
theorem engineSynthesize_volume (fx : Fix) (c : Condition K) (g : K) (b : Bool) (inp : EngineIn K) :
    engineSynthesize fx { c with volume := g } b inp =
      (engineSynthesize fx { c with volume := 1 } b inp).map fun w => w.map (· * g) := by
  unfold engineSynthesize
  rw [engineParams_volume c g b inp, engineParams_volume c 1 b inp]
  cases hp : engineParams c b inp with
  | err e => simp [Outcome.map]
  | panic s => simp [Outcome.map]
  | ok p =>
    simp only
    cases hchk : speechGeneratorNewOk p with
    | false => simp [Outcome.map]
    | true =>
      simp only [Bool.not_true, Bool.false_eq_true, if_false]
      rw [Gen.finish_fixed (vocoderFrame fx c.fperiod) _ (fun v f => vocoderFrame_length fx c.fperiod v f)
        (Nat.zero_le _)]
      rw [Gen.finish_fixed (vocoderFrame fx c.fperiod) _ (fun v f => vocoderFrame_length fx c.fperiod v f)
        (Nat.zero_le _)]
      simp only [Outcome.map, List.drop_zero, Outcome.ok.injEq]
      exact render_vocoderFrame_volume fx c.fperiod g _
        (VocoderSt.new _ _ c.stage c.useLogGain c.samplingFrequency c.alpha c.beta c.volume c.fperiod)

/-- in decibels: `set_volume(v)` multiplies the 0 dB waveform by `exp(v·DB)` (`= 10^(v/20)`), given `exp 0 = 1` -/
theorem engineSynthesize_setVolume (hexp0 : Transc.exp (0 : K) = 1) (fx : Fix) (c : Condition K) (v : K) (b : Bool)
    (inp : EngineIn K) :
    engineSynthesize fx (c.setVolume v) b inp =
      (engineSynthesize fx (c.setVolume 0) b inp).map fun w => w.map (· * Transc.exp (v * Consts.db)) := by
  have h0 : c.setVolume 0 = { c with volume := 1 } := by
    unfold Condition.setVolume
    rw [zero_mul, hexp0]
  rw [h0]
  exact engineSynthesize_volume fx c (Transc.exp (v * Consts.db)) b inp

end Jb
