/-
  C06, structural half of the spectral clause, first stage: `df1` realises the Padé rational function of its
  basic filter.  With `F₁ = c₁·Φ₁` (`basic1`) and `p` the Padé coefficients of the code, the inner signal `u`
  (what the code stores in `d12[0]`) satisfies  `P(−F₁) u = x`  and the output is  `y = P(F₁) u`,
  i.e. the transfer function of `df1` is `P(F₁(z)) / P(−F₁(z))` — exactly, for every input, from rest.
  Also: the MLSA filter is `df2 ∘ df1` (the two stages touch disjoint parts of the state).
-/
import Jb.Proofs.Signal
import Mathlib.Tactic.IntervalCases

set_option linter.unusedSectionVars false

namespace Jb

variable {K : Type} [Field K] [LinearOrder K] [IsStrictOrderedRing K] [Transc K] [Consts K]

/-! ### factorisation `mlsaDf = mlsaDf2 ∘ mlsaDf1` over a signal -/

theorem mlsaDf1_congr (s t : MlsaSt K) (x alpha : K) (c : List K)
    (h11 : s.d11 = t.d11) (h12 : s.d12 = t.d12) :
    (mlsaDf1 s x alpha c).1 = (mlsaDf1 t x alpha c).1 ∧
      (mlsaDf1 s x alpha c).2.d11 = (mlsaDf1 t x alpha c).2.d11 ∧
      (mlsaDf1 s x alpha c).2.d12 = (mlsaDf1 t x alpha c).2.d12 := by
  obtain ⟨a, b, c', d⟩ := s
  obtain ⟨a', b', c'', d'⟩ := t
  simp only at h11 h12
  subst h11 h12
  exact ⟨rfl, rfl, rfl⟩

theorem mlsaDf2_congr (s t : MlsaSt K) (x alpha : K) (c : List K)
    (h21 : s.d21 = t.d21) (h22 : s.d22 = t.d22) :
    (mlsaDf2 s x alpha c).1 = (mlsaDf2 t x alpha c).1 ∧
      (mlsaDf2 s x alpha c).2.d21 = (mlsaDf2 t x alpha c).2.d21 ∧
      (mlsaDf2 s x alpha c).2.d22 = (mlsaDf2 t x alpha c).2.d22 := by
  obtain ⟨a, b, c', d⟩ := s
  obtain ⟨a', b', c'', d'⟩ := t
  simp only at h21 h22
  subst h21 h22
  exact ⟨rfl, rfl, rfl⟩

theorem mlsaRun_factor_gen (alpha : K) (c : List K) (xs : List K) (st s1 s2 : MlsaSt K)
    (h11 : st.d11 = s1.d11) (h12 : st.d12 = s1.d12) (h21 : st.d21 = s2.d21) (h22 : st.d22 = s2.d22) :
    mlsaRun alpha c st xs = df2Run alpha c s2 (df1Run alpha c s1 xs) := by
  induction xs generalizing st s1 s2 with
  | nil => rfl
  | cons x xs ih =>
    have e1 := mlsaDf1_congr st s1 x alpha c h11 h12
    have sh1 := mlsaDf1_shape st x alpha c
    have e2 := mlsaDf2_congr (mlsaDf1 st x alpha c).2 s2 (mlsaDf1 st x alpha c).1 alpha c
      (sh1.2.2.1.trans h21) (sh1.2.2.2.trans h22)
    have sh2 := mlsaDf2_shape (mlsaDf1 st x alpha c).2 (mlsaDf1 st x alpha c).1 alpha c
    have hd : mlsaDf st x alpha c =
        mlsaDf2 (mlsaDf1 st x alpha c).2 (mlsaDf1 st x alpha c).1 alpha c := rfl
    simp only [mlsaRun, df1Run, df2Run, hd]
    rw [← e1.1, e2.1]
    congr 1
    apply ih
    · rw [sh2.1]; exact e1.2.1
    · rw [sh2.2.1]; exact e1.2.2
    · exact e2.2.1
    · exact e2.2.2

/-- the MLSA filter is the second stage run on the output of the first -/
theorem mlsaRun_factor (alpha : K) (c : List K) (nmcp : Nat) (xs : List K) :
    mlsaRun alpha c (MlsaSt.init nmcp) xs =
      df2Run alpha c (MlsaSt.init nmcp) (df1Run alpha c (MlsaSt.init nmcp) xs) :=
  mlsaRun_factor_gen alpha c xs _ _ _ rfl rfl rfl rfl

/-- the inner signal of `df1`: the value stored in `d12[0]` at each sample -/
def df1Inner (alpha : K) (c : List K) : MlsaSt K → List K → List K
  | _, [] => []
  | st, x :: xs => let r := mlsaDf1 st x alpha c; r.2.d12.getD 0 0 :: df1Inner alpha c r.2 xs

theorem df1Inner_length (alpha : K) (c : List K) (st : MlsaSt K) (xs : List K) :
    (df1Inner alpha c st xs).length = xs.length := by
  induction xs generalizing st with
  | nil => rfl
  | cons x xs ih => simp only [df1Inner, List.length_cons, ih]

/-! ### the invariant of `df1` -/

/-- one-sample delay started with `u[−1] = a` -/
def delayFrom (a : K) (us : List K) : List K := (a :: us).take us.length

theorem delayFrom_cons (a u : K) (us : List K) : delayFrom a (u :: us) = a :: delayFrom u us := by
  simp only [delayFrom, List.length_cons, List.take_succ_cons]

/-- `F₁^i u` started from the state `d12 = as`, `d11 = bs` -/
def sigFrom (alpha c1 : K) (as bs : List K) : Nat → List K → List K
  | 0, u => u
  | i + 1, u =>
    (onePoleFrom alpha (bs.getD (i + 1) 0) (delayFrom (as.getD i 0) (sigFrom alpha c1 as bs i u))).map (c1 * ·)

theorem sigFrom_cons (alpha c1 : K) (as bs as' bs' : List K) (u0 : K) (U : List K) (i : Nat)
    (h0 : as'.getD 0 0 = u0)
    (hb : ∀ j < i, bs'.getD (j + 1) 0 = (1 - alpha * alpha) * as.getD j 0 + alpha * bs.getD (j + 1) 0)
    (ha : ∀ j < i, as'.getD (j + 1) 0 = c1 * bs'.getD (j + 1) 0) :
    sigFrom alpha c1 as bs i (u0 :: U) = as'.getD i 0 :: sigFrom alpha c1 as' bs' i U := by
  induction i with
  | zero => simp only [sigFrom, h0]
  | succ i ih =>
    have ih' := ih (fun j hj => hb j (Nat.lt_succ_of_lt hj)) (fun j hj => ha j (Nat.lt_succ_of_lt hj))
    simp only [sigFrom, ih', delayFrom_cons, onePoleFrom, List.map_cons]
    rw [ha i (Nat.lt_succ_self i), hb i (Nat.lt_succ_self i)]

theorem getD_replicate_zero' (n i : Nat) : (List.replicate n (0 : K)).getD i 0 = 0 := by
  simp only [List.getD_eq_getElem?_getD, List.getElem?_replicate]
  split <;> rfl

theorem sigFrom_zero (alpha : K) (c : List K) (m k : Nat) (i : Nat) (u : List K) :
    sigFrom alpha (c.getD 1 0) (List.replicate m 0) (List.replicate k 0) i u = opPow (basic1 alpha c) i u := by
  induction i with
  | zero => rfl
  | succ i ih =>
    simp only [sigFrom, opPow, ih, getD_replicate_zero']
    rfl

theorem length_six {β : Type} (l : List β) (h : l.length = 6) :
    ∃ a0 a1 a2 a3 a4 a5, l = [a0, a1, a2, a3, a4, a5] := by
  rcases l with _ | ⟨a0, _ | ⟨a1, _ | ⟨a2, _ | ⟨a3, _ | ⟨a4, _ | ⟨a5, _ | ⟨a6, l⟩⟩⟩⟩⟩⟩⟩ <;>
    simp at h
  exact ⟨a0, a1, a2, a3, a4, a5, rfl⟩

/-- everything the invariant needs from one sample of `df1` -/
theorem mlsaDf1_facts (st : MlsaSt K) (x alpha : K) (c : List K)
    (h11 : st.d11.length = 6) (h12 : st.d12.length = 6) :
    (∀ j < 5, (mlsaDf1 st x alpha c).2.d11.getD (j + 1) 0 =
        (1 - alpha * alpha) * st.d12.getD j 0 + alpha * st.d11.getD (j + 1) 0) ∧
    (∀ j < 5, (mlsaDf1 st x alpha c).2.d12.getD (j + 1) 0 =
        c.getD 1 0 * (mlsaDf1 st x alpha c).2.d11.getD (j + 1) 0) ∧
    ((Finset.range 6).sum fun i => (-1 : K) ^ i * (padeCoef : List K).getD i 0 *
        (mlsaDf1 st x alpha c).2.d12.getD i 0) = x ∧
    ((Finset.range 6).sum fun i => (1 : K) ^ i * (padeCoef : List K).getD i 0 *
        (mlsaDf1 st x alpha c).2.d12.getD i 0) = (mlsaDf1 st x alpha c).1 := by
  obtain ⟨b0, b1, b2, b3, b4, b5, e11⟩ := length_six _ h11
  obtain ⟨a0, a1, a2, a3, a4, a5, e12⟩ := length_six _ h12
  obtain ⟨d11, d12, d21, d22⟩ := st
  simp only at e11 e12
  subst e11 e12
  have hE : mlsaDf1 (⟨[b0, b1, b2, b3, b4, b5], [a0, a1, a2, a3, a4, a5], d21, d22⟩ : MlsaSt K) x alpha c =
      (let aa := 1 - alpha * alpha
       let c1 := c.getD 1 0
       let pp : List K := padeCoef
       let w5 := aa * a4 + alpha * b5
       let w4 := aa * a3 + alpha * b4
       let w3 := aa * a2 + alpha * b3
       let w2 := aa * a1 + alpha * b2
       let w1 := aa * a0 + alpha * b1
       let x' := x + w5 * c1 * pp.getD 5 0 + -(w4 * c1 * pp.getD 4 0) + w3 * c1 * pp.getD 3 0
                   + -(w2 * c1 * pp.getD 2 0) + w1 * c1 * pp.getD 1 0
       let out := 0 + w5 * c1 * pp.getD 5 0 + w4 * c1 * pp.getD 4 0 + w3 * c1 * pp.getD 3 0
                   + w2 * c1 * pp.getD 2 0 + w1 * c1 * pp.getD 1 0
       (x' + out, ⟨[b0, w1, w2, w3, w4, w5], [x', w1 * c1, w2 * c1, w3 * c1, w4 * c1, w5 * c1], d21, d22⟩)) := rfl
  rw [hE]
  have hp0 : (padeCoef : List K).getD 0 0 = 1 := rfl
  refine ⟨?_, ?_, ?_, ?_⟩
  · intro j hj
    interval_cases j <;> rfl
  · intro j hj
    interval_cases j <;> exact mul_comm _ _
  · simp only [Finset.sum_range_succ, Finset.sum_range_zero, List.getD_cons_zero, List.getD_cons_succ, hp0]
    ring
  · simp only [Finset.sum_range_succ, Finset.sum_range_zero, List.getD_cons_zero, List.getD_cons_succ, hp0]
    ring

/-- the from-state form of `df1_pade` -/
theorem df1_pade_gen (alpha : K) (c : List K) (xs : List K) (st : MlsaSt K)
    (h11 : st.d11.length = 6) (h12 : st.d12.length = 6) (n : Nat) (hn : n < xs.length) :
    ((Finset.range 6).sum fun i => (-1 : K) ^ i * (padeCoef : List K).getD i 0 *
        (sigFrom alpha (c.getD 1 0) st.d12 st.d11 i (df1Inner alpha c st xs)).getD n 0) = xs.getD n 0 ∧
    ((Finset.range 6).sum fun i => (1 : K) ^ i * (padeCoef : List K).getD i 0 *
        (sigFrom alpha (c.getD 1 0) st.d12 st.d11 i (df1Inner alpha c st xs)).getD n 0) =
      (df1Run alpha c st xs).getD n 0 := by
  induction xs generalizing st n with
  | nil => simp at hn
  | cons x xs ih =>
    obtain ⟨hb, ha, hx, hy⟩ := mlsaDf1_facts st x alpha c h11 h12
    have sh := mlsaDf1_shape st x alpha c
    have hs : ∀ i ∈ Finset.range 6,
        sigFrom alpha (c.getD 1 0) st.d12 st.d11 i (df1Inner alpha c st (x :: xs)) =
          (mlsaDf1 st x alpha c).2.d12.getD i 0 ::
            sigFrom alpha (c.getD 1 0) (mlsaDf1 st x alpha c).2.d12 (mlsaDf1 st x alpha c).2.d11 i
              (df1Inner alpha c (mlsaDf1 st x alpha c).2 xs) := by
      intro i hi
      have hi' : i < 6 := Finset.mem_range.mp hi
      exact sigFrom_cons alpha (c.getD 1 0) st.d12 st.d11 _ _ _ _ i rfl
        (fun j hj => hb j (by omega)) (fun j hj => ha j (by omega))
    have e1 : ∀ s : K, ((Finset.range 6).sum fun i => s ^ i * (padeCoef : List K).getD i 0 *
        (sigFrom alpha (c.getD 1 0) st.d12 st.d11 i (df1Inner alpha c st (x :: xs))).getD n 0) =
        ((Finset.range 6).sum fun i => s ^ i * (padeCoef : List K).getD i 0 *
          ((mlsaDf1 st x alpha c).2.d12.getD i 0 ::
            sigFrom alpha (c.getD 1 0) (mlsaDf1 st x alpha c).2.d12 (mlsaDf1 st x alpha c).2.d11 i
              (df1Inner alpha c (mlsaDf1 st x alpha c).2 xs)).getD n 0) := by
      intro s
      exact Finset.sum_congr rfl (fun i hi => by rw [hs i hi])
    rw [e1, e1]
    cases n with
    | zero =>
      simp only [List.getD_cons_zero, df1Run]
      exact ⟨hx, hy⟩
    | succ n =>
      simp only [List.getD_cons_succ, df1Run]
      exact ih _ (sh.1.trans h11) (sh.2.1.trans h12) n (by simpa using hn)

/-- **`df1` = `P(F₁)/P(−F₁)`** -/
theorem df1_pade (alpha : K) (c : List K) (nmcp : Nat) (xs : List K) (n : Nat) (hn : n < xs.length) :
    padeApply (-1) (basic1 alpha c) (df1Inner alpha c (MlsaSt.init nmcp) xs) n = xs.getD n 0 ∧
    padeApply 1 (basic1 alpha c) (df1Inner alpha c (MlsaSt.init nmcp) xs) n =
      (df1Run alpha c (MlsaSt.init nmcp) xs).getD n 0 := by
  have h := df1_pade_gen alpha c xs (MlsaSt.init nmcp) (by simp [MlsaSt.init]) (by simp [MlsaSt.init]) n hn
  simp only [MlsaSt.init, sigFrom_zero] at h
  exact h

end Jb
