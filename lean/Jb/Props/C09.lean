/-
  C09 — phoneme alignment is honoured.

  Model: `fillTimes` (Labels::new), `timeRate`, `createWithAlignment` in `Jb/Model/Duration.lean`.
  `createWithAlignment true` is the repaired code (fix commit in /repo: trailing labels without an end
  time fall back to their model durations); `createWithAlignment false` is the pinned commit's
  behaviour, kept in the model so that the defect is a theorem too (`trailing_dropped_before_fix`).
-/
import Jb.Proofs.Align
import Mathlib.Data.Rat.Floor
import Mathlib.Tactic.NormNum
import Jb.Proofs.SynthBridge2

set_option linter.unusedSectionVars false

namespace Jb.C09
open Jb

variable {K : Type} [Field K] [LinearOrder K] [IsStrictOrderedRing K] [FloorRing K]

/-- `Labels::new`: an unknown end inherits the next label's start, an unknown start the previous
    label's end, the rest becomes −1; known values are kept. -/
theorem fill_spec (ts : List (K × K)) :
    (fillTimes ts).length = ts.length ∧
    ∀ i, i < ts.length → (fillTimes ts).getD i (0, 0) = fillSpecAt ts i :=
  ⟨fillTimes_length ts, fun i hi => fillTimes_spec ts i hi⟩

/-- No label vanishes: one duration per state of every label, each ≥ 1, no panic. -/
theorem alignment_keeps_all (ps : List (MeanVari K)) (nstate : Nat) (times : List (K × K))
    (hn : 0 < nstate) (hlen : ps.length = times.length * nstate) :
    ∃ d, createWithAlignment true ps nstate times = .ok d ∧ d.length = ps.length ∧
      ∀ x ∈ d, 1 ≤ x :=
  align_keeps_all ps nstate times hn hlen

/-- The cumulative law per known end (see `align_cumulative`). -/
theorem aligned_cumulative (ps : List (MeanVari K)) (nstate : Nat) (times : List (K × K))
    (hn : 0 < nstate) (hlen : ps.length = times.length * nstate) (d : List Nat)
    (hd : createWithAlignment true ps nstate times = .ok d)
    (i : Nat) (hi : i < times.length) (he : 0 ≤ (times.getD i (0, 0)).2) :
    let e := (times.getD i (0, 0)).2
    let g := groupStart times i
    let c := (d.take (g * nstate)).sum
    let m := (i + 1 - g) * nstate
    (m < RoundNat.roundMax1 (e - (c : K)) →
        (d.take ((i + 1) * nstate)).sum = c + RoundNat.roundMax1 (e - (c : K))) ∧
    (RoundNat.roundMax1 (e - (c : K)) ≤ m →
        ∀ x ∈ (d.drop (g * nstate)).take m, x = 1) :=
  align_cumulative ps nstate times hn hlen d hd i hi he

/-- … and `c + round(e − c)` is `round(e)`: the frames through the label equal the rounded end time. -/
theorem cumulative_is_round_end (e : K) (c : Nat) (h : 1 ≤ ⌊e + 1 / 2⌋₊ - c) :
    c + RoundNat.roundMax1 (e - (c : K)) = ⌊e + 1 / 2⌋₊ := by
  rw [roundMax1_sub_nat e c h, roundMax1_def]
  have : 1 ≤ ⌊e + 1 / 2⌋₊ := by omega
  rw [max_eq_right this]; omega

/-- The defect of the pinned commit, as a theorem about its model: one label, no time stamps —
    every state vanishes. After the fix the model durations are used. -/
theorem trailing_dropped_before_fix :
    createWithAlignment false ([⟨3, 1⟩, ⟨2, 1⟩] : List (MeanVari ℚ)) 2 [(-1, -1)] = .ok [] := by
  rw [createWithAlignment, alignLoop_unknown_last false _ 2 0 0 0 [] (-1) (-1) (by norm_num)
    (by simp) (by simp)]
  simp

theorem trailing_kept_after_fix :
    createWithAlignment true ([⟨3, 1⟩, ⟨2, 1⟩] : List (MeanVari ℚ)) 2 [(-1, -1)] = .ok [3, 2] := by
  rw [createWithAlignment, alignLoop_unknown_last true _ 2 0 0 0 [] (-1) (-1) (by norm_num)
    (by simp) (by simp)]
  norm_num [estimateDuration, roundMax1_def, Nat.floor_eq_iff]

/-! ### for the whole library (`Jb/Proofs/SynthBridge2.lean`) -/

/-- **C09 from the voice files** (statement: `Synth.durations_alignment`). On a well-formed voice set with alignment on and
    one time pair per label, the durations `Engine::generator` uses are `createWithAlignment` of the interpolated duration
    model and the caller's times: one duration ≥ 1 per state of every label (no label vanishes), the waveform has
    `frame_period × Σ durations` samples, and for every label with a known end the cumulative law of `aligned_cumulative`
    holds with the caller's time list. -/
alias library_alignment_law := Synth.durations_alignment

/-- … in particular the frames up to and including a label with known end `e` number `round(e)` whenever its group gets more
    than one frame per state (statement: `Synth.durations_alignment_round_end`). -/
alias library_alignment_round_end := Synth.durations_alignment_round_end

end Jb.C09
