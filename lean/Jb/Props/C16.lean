/-
  C16 — volume is a pure gain in decibels.
-/
import Jb.Proofs.EngineVolume
import Jb.Proofs.Postfilter
import Jb.Props.C20
import Jb.Proofs.SynthBridge

set_option linter.unusedSectionVars false

namespace Jb.C16
open Jb

variable {K : Type} [Field K] [LinearOrder K] [IsStrictOrderedRing K] [Transc K] [Consts K]

/-- One frame at gain `g` is the frame at gain 1 scaled sample by sample — for either filter family,
    any excitation, any post-filter — and the vocoder state evolves identically. -/
theorem frame_gain (fx : Fix) (v : VocoderSt K) (g : K) (lf0 : K) (sp lpf : List K) :
    vocoderSynth fx { v with volume := g } lf0 sp lpf =
      (((vocoderSynth fx { v with volume := 1 } lf0 sp lpf).1.map fun y => y * g),
       { (vocoderSynth fx { v with volume := 1 } lf0 sp lpf).2 with volume := g }) :=
  vocoderSynth_volume fx v g lf0 sp lpf

/-- … hence, by induction over the frames, the whole rendering at gain `g` is the rendering at gain 1
    scaled by `g`. -/
theorem render_gain (fx : Fix) (g : K) (frames : List (K × List K × List K)) (v : VocoderSt K) :
    (frames.foldl (fun (acc : List K × VocoderSt K) f =>
        let r := vocoderSynth fx acc.2 f.1 f.2.1 f.2.2; (acc.1 ++ r.1, r.2)) ([], { v with volume := g })).1 =
    ((frames.foldl (fun (acc : List K × VocoderSt K) f =>
        let r := vocoderSynth fx acc.2 f.1 f.2.1 f.2.2; (acc.1 ++ r.1, r.2)) ([], { v with volume := 1 })).1.map (· * g)) := by
  suffices H : ∀ (frames : List (K × List K × List K)) (v : VocoderSt K) (out : List K),
      (frames.foldl (fun (acc : List K × VocoderSt K) f =>
        let r := vocoderSynth fx acc.2 f.1 f.2.1 f.2.2; (acc.1 ++ r.1, r.2)) (out.map (· * g), { v with volume := g })) =
      (((frames.foldl (fun (acc : List K × VocoderSt K) f =>
        let r := vocoderSynth fx acc.2 f.1 f.2.1 f.2.2; (acc.1 ++ r.1, r.2)) (out, { v with volume := 1 })).1.map (· * g)),
       { (frames.foldl (fun (acc : List K × VocoderSt K) f =>
        let r := vocoderSynth fx acc.2 f.1 f.2.1 f.2.2; (acc.1 ++ r.1, r.2)) (out, { v with volume := 1 })).2 with volume := g }) by
    have := H frames v []
    simp only [List.map_nil] at this
    rw [this]
  intro frames
  induction frames with
  | nil => intro v out; simp
  | cons f fs ih =>
    intro v out
    simp only [List.foldl_cons]
    have h1 := vocoderSynth_volume fx v g f.1 f.2.1 f.2.2
    rw [h1]
    have := ih (vocoderSynth fx { v with volume := 1 } f.1 f.2.1 f.2.2).2
      (out ++ (vocoderSynth fx { v with volume := 1 } f.1 f.2.1 f.2.2).1)
    simp only [List.map_append] at this
    have hv : ({ (vocoderSynth fx { v with volume := 1 } f.1 f.2.1 f.2.2).2 with volume := (1 : K) } : VocoderSt K)
        = (vocoderSynth fx { v with volume := 1 } f.1 f.2.1 f.2.2).2 := by
      have := vocoderSynth_volume fx v 1 f.1 f.2.1 f.2.2
      have h2 := congrArg Prod.snd this
      simp only at h2
      rw [← h2]
    rw [hv] at this
    exact this

/-- reading the volume back returns `v` (given `ln ∘ exp = id`) -/
theorem volume_roundtrip (hle : ∀ x : K, Transc.ln (Transc.exp x) = x) (hdb : (Consts.db : K) ≠ 0)
    (c : Condition K) (v : K) : (c.setVolume v).getVolume = v :=
  Jb.C20.volume_roundtrip hle hdb c v

/-- decibels add: `+6.02 dB` doubles because `exp` turns the sum into a product -/
theorem db_additive (hexp : ∀ a b : K, Transc.exp (a + b) = Transc.exp a * Transc.exp b) (a b : K) :
    Transc.exp ((a + b) * Consts.db) = Transc.exp (a * Consts.db) * Transc.exp (b * Consts.db) :=
  volume_db_additive hexp a b

/-- setting the volume changes no other setting -/
theorem volume_frame (c : Condition K) (v : K) :
    let c' := c.setVolume v
    c'.samplingFrequency = c.samplingFrequency ∧ c'.fperiod = c.fperiod ∧ c'.msdThreshold = c.msdThreshold ∧
    c'.gvWeight = c.gvWeight ∧ c'.alignment = c.alignment ∧ c'.speed = c.speed ∧ c'.alpha = c.alpha ∧
    c'.beta = c.beta ∧ c'.halfTone = c.halfTone ∧ c'.stage = c.stage ∧ c'.useLogGain = c.useLogGain := by
  simp [Condition.setVolume]

/-- **Volume is a pure gain of the whole synthesis** (pipeline model): with linear gain `g` every sample is `g` times the
    gain-1 sample — durations, trajectories and vocoder state never see the volume. -/
theorem synthesize_gain [FloorRing K] [MlpgConsts K] (fx : Fix) (c : Condition K) (g : K) (b : Bool) (inp : EngineIn K) :
    engineSynthesize fx { c with volume := g } b inp =
      (engineSynthesize fx { c with volume := 1 } b inp).map fun w => w.map (· * g) :=
  engineSynthesize_volume fx c g b inp

/-- … in decibels: `set_volume(v)` multiplies the 0 dB waveform by `exp(v·ln10/20) = 10^(v/20)`. -/
theorem synthesize_volume_db [FloorRing K] [MlpgConsts K] (hexp0 : Transc.exp (0 : K) = 1) (fx : Fix) (c : Condition K) (v : K)
    (b : Bool) (inp : EngineIn K) :
    engineSynthesize fx (c.setVolume v) b inp =
      (engineSynthesize fx (c.setVolume 0) b inp).map fun w => w.map (· * Transc.exp (v * Consts.db)) :=
  engineSynthesize_setVolume hexp0 fx c v b inp

/-! ### for the whole library (`Jb/Proofs/SynthBridge.lean`): any voice set, weights, setter history, labels -/

/-- **C16 from the voice files.** Appending `set_volume(v)` to any setter history multiplies every sample of what
    `Engine::synthesize` returns by `exp(v·ln10/20)` relative to appending `set_volume(0)` — same outcome class, same
    length — for every voice set (well-formed or not), weights, labels and time stamps. `SpeedOnly f` says the model's
    `speed == 1.0` test reads the speed only (without it the statement is false: `Synth.Cex.volume_needs_speedOnly`). -/
theorem library_volume_is_gain {K : Type} [Field K] [LinearOrder K] [IsStrictOrderedRing K] [FloorRing K]
    [Transc K] [Consts K] [MlpgConsts K] [FromFile K] (hexp0 : Transc.exp (0 : K) = 1) (fx : Fix) (big : K)
    (voices : List Hts.ParsedVoice) (iw : IW K) (ops : List (CondOp K)) (f : Condition K → Bool) (hf : Synth.SpeedOnly f)
    (labels : List (List Char)) (times : List (K × K)) (v : K) :
    Synth.synthesize fx big voices iw (ops ++ [.vol v]) f labels times =
      (Synth.synthesize fx big voices iw (ops ++ [.vol 0]) f labels times).map
        fun w => w.map (· * Transc.exp (v * Consts.db)) :=
  Synth.synthesize_volume hexp0 fx big voices iw ops f hf labels times v

end Jb.C16
