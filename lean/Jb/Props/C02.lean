/-
  C02 — incremental generation equals one-shot synthesis.

  Model: `Jb/Model/Speech.lean` — the generator state machine over an abstract vocoder
  `synth : V → F → V × List α` whose only assumed property is that a frame yields `fperiod` samples.
  `finish … true` is the repaired `generate_all` (fix commit in /repo); `finish … false` is the pinned
  commit's indexing, kept so that the defect is a theorem about its model.
-/
import Jb.Proofs.Speech

set_option linter.unusedSectionVars false

namespace Jb.C02
open Jb Jb.Gen

variable {V F α : Type} [OfNat α 0]

/-- a fresh generator -/
def fresh (fp : Nat) (frames : List F) (v0 : V) : Gen V F :=
  { fperiod := fp, frames := frames, next := 0, voc := v0 }

/-- One-shot synthesis is the rendering of all frames. -/
theorem oneshot_is_render (synth : V → F → V × List α) (fp : Nat) (frames : List F) (v0 : V)
    (hs : ∀ v f, (synth v f).2.length = fp) :
    finish synth true (fresh fp frames v0) = .ok (render synth v0 frames) := by
  have := finish_fixed synth (fresh fp frames v0) hs (Nat.zero_le _)
  simpa [fresh] using this

/-- **History refinement.** Every caller history over {step with any buffer, frames-produced query,
    finish} on a fresh generator yields exactly the observations of the trivial specification machine
    "cursor into the one-shot waveform": a live step returns `fperiod`, overwrites the first `fperiod`
    cells with the next chunk of the one-shot waveform and leaves the rest of the buffer untouched; an
    exhausted step returns 0 and leaves the buffer untouched; the query returns the cursor; finish
    returns exactly the not-yet-produced suffix. Buffer sizes are arbitrary (a buffer shorter than a
    frame is the documented panic, in both machines). -/
theorem history_refines (synth : V → F → V × List α) (fp : Nat) (frames : List F) (v0 : V)
    (hs : ∀ v f, (synth v f).2.length = fp) (ops : List (GenOp × List α)) :
    runOps synth true (fresh fp frames v0) ops =
      specOps (render synth v0 frames) fp frames.length 0 ops := by
  have := runOps_refines synth v0 (fresh fp frames v0) hs (Nat.zero_le _) (by simp [fresh, stateAfter]) ops
  simpa [fresh] using this

/-- Once exhausted, a step returns 0 and writes nothing. -/
theorem step_exhausted (synth : V → F → V × List α) (g : Gen V F) (buf : List α)
    (h : g.frames.length ≤ g.next) : step synth g buf = .ok (g, 0, buf) :=
  Gen.step_exhausted synth g buf h

/-- Corollary of the refinement: pulling frame by frame with any buffer sizes ≥ one frame and
    concatenating the written chunks gives the one-shot waveform. Stated on the specification machine,
    which `history_refines` shows is what the generator does. -/
def chunks : List (GenObs α) → List α
  | [] => []
  | .stepped n buf :: rest => buf.take n ++ chunks rest
  | _ :: rest => chunks rest

theorem chunks_concat_eq_oneshot (w : List α) (fp n : Nat) (hw : w.length = n * fp)
    (ops : List (GenOp × List α)) (k : Nat) (hk : k ≤ n)
    (hall : ∀ op ∈ ops, (∃ b, op.1 = GenOp.step b) ∧ fp ≤ op.2.length)
    (hlen : n - k ≤ ops.length) :
    chunks (specOps w fp n k ops) = w.drop (k * fp) := by
  induction ops generalizing k with
  | nil =>
    have hkn : k = n := by simp at hlen; omega
    subst hkn
    simp [specOps, chunks, List.drop_eq_nil_of_le (Nat.le_of_eq hw)]
  | cons op rest ih =>
    obtain ⟨o, buf⟩ := op
    have hop := hall (o, buf) (List.mem_cons_self ..)
    obtain ⟨⟨b, hb⟩, hbuf⟩ := hop
    simp only at hb hbuf
    subst hb
    have hall' : ∀ op ∈ rest, (∃ b, op.1 = GenOp.step b) ∧ fp ≤ op.2.length :=
      fun op hop => hall op (List.mem_cons_of_mem _ hop)
    simp only [specOps]
    rcases Nat.lt_or_ge k n with hlt | hge
    · have hnb : ¬ buf.length < fp := by omega
      simp only [hlt, hnb, if_true, if_false, chunks]
      have hmul : (k + 1) * fp ≤ n * fp := Nat.mul_le_mul_right fp hlt
      have hsucc : (k + 1) * fp = k * fp + fp := Nat.succ_mul k fp
      have hX : ((w.drop (k * fp)).take fp).length = fp := by
        rw [List.length_take, List.length_drop, hw]; omega
      rw [List.take_left' hX, ih (k + 1) hlt hall' (by simp at hlen; omega), hsucc,
        ← List.drop_drop, List.take_append_drop]
    · have hkn : k = n := by omega
      have hnlt : ¬ k < n := by omega
      simp only [hnlt, if_false, chunks, List.take_zero, List.nil_append]
      exact ih k hk hall' (by omega)

/-- The defect of the pinned commit as a theorem about its model: `generate_all` after one
    `generate_step` panics (buffer sized for the remainder, indexed from the absolute frame). -/
def toySynth : Nat → Nat → Nat × List Nat := fun v f => (v + f, [v + f])

theorem finish_after_step_panics_before_fix :
    ∃ s, finish toySynth false ({ fperiod := 1, frames := [1, 2], next := 1, voc := 1 } : Gen Nat Nat)
      = .panic s := by
  exact ⟨_, rfl⟩

theorem finish_after_step_ok_after_fix :
    finish toySynth true ({ fperiod := 1, frames := [1, 2], next := 1, voc := 1 } : Gen Nat Nat)
      = .ok [3] := by
  rfl

/-- Non-vacuity: a 3-frame generator with a vocoder that has real state (running sum). -/
example : runOps toySynth true (fresh 1 [1, 2, 3] 0)
    [(.step 2, [9, 9]), (.query, []), (.step 1, [9]), (.finish, [])] =
    [.stepped 1 [1, 9], .count 1, .stepped 1 [3], .finished [6]] := by
  rfl

end Jb.C02
