/-
  C12 — global variance restores the model's variance.  **Partial.**

  Theorems: the GV target is `gv_mean × gv_weight`; with no eligible frame the GV stage returns the
  plain ML solution; a stream without GV ignores the GV weight; eligibility of a frame is the GV switch
  of its state (expanded by the durations) restricted to voiced frames.
  Not proved (empirical claims about a fixed, truncated Newton-like iteration): "within 20 % when ≥ 100
  frames are eligible" and "monotone in the weight" — decided on every run on the implementation
  (bundled voice and perturbed copies), with the GV iteration's model tied bit-for-bit at stage level.
-/
import Jb.Proofs.Engine
import Jb.Proofs.Gv
import Jb.Model.Synth
import Jb.Proofs.SynthBridge2

set_option linter.unusedSectionVars false

namespace Jb.C12
open Jb

variable {K : Type} [Field K] [LinearOrder K] [IsStrictOrderedRing K] [FloorRing K]
  [Transc K] [Consts K] [MlpgConsts K]

/-- the variance target handed to the GV stage is `gv_mean · gv_weight`, the switch is expanded by the
    durations and restricted to voiced frames -/
theorem target_is_weighted (m : MlpgMatrix K) (gvParam : List (MeanVari K)) (gvSwitch : List Bool)
    (vi : Nat) (w : K) (durs : List Nat) (mask : List Bool) :
    m.par (some (gvParam, gvSwitch)) vi w durs mask =
      gvParmgen m m.solve (filterBy (expand gvSwitch durs) mask)
        ((gvParam.getD vi ⟨0, 0⟩).mean * w) (gvParam.getD vi ⟨0, 0⟩).vari := rfl

/-- If no frame is eligible the trajectory is the plain maximum-likelihood solution. -/
theorem no_eligible_is_ml (m : MlpgMatrix K) (par : List K) (sw : List Bool) (gm gv : K)
    (h : (sw.filter id).length = 0) : gvParmgen m par sw gm gv = par :=
  gvParmgen_no_eligible m par sw gm gv h

theorem no_eligible_par (m : MlpgMatrix K) (gvParam : List (MeanVari K)) (gvSwitch : List Bool)
    (vi : Nat) (w : K) (durs : List Nat) (mask : List Bool)
    (h : ((filterBy (expand gvSwitch durs) mask).filter id).length = 0) :
    m.par (some (gvParam, gvSwitch)) vi w durs mask = m.par none vi w durs mask := by
  rw [target_is_weighted, gvParmgen_no_eligible _ _ _ _ _ h]; rfl

/-- A stream without GV is unaffected by the GV weight. -/
theorem no_gv_ignores_weight (gw gw' thr : K) (s : StreamIn K) (durs : List Nat) (h : s.gv = none) :
    mlpgCreate gw thr s durs = mlpgCreate gw' thr s durs :=
  mlpgCreate_no_gv gw gw' thr s durs h

/-- **`conv_gv` restores exactly the target variance.** With at least one eligible frame, positive
    current variance and a square root that squares back, after the first GV step the variance over the
    eligible frames is exactly `gv_mean · gv_weight`, their mean is unchanged, and ineligible frames are
    untouched. (The five Newton-like steps that follow trade this off against the HMM likelihood; that
    the result stays within 20 % is the tested clause.) -/
theorem conv_gv_hits_target (par : List K) (sw : List Bool) (gm : K)
    (hlen : par.length = sw.length) (hpos : 0 < (sw.filter id).length)
    (hsqrt : ∀ x : K, 0 ≤ x → Transc.sqrt x * Transc.sqrt x = x)
    (hv : 0 < (calcGv par sw (sw.filter id).length).2)
    (hr : 0 ≤ gm / (calcGv par sw (sw.filter id).length).2) :
    calcGv (convGv par sw (sw.filter id).length gm) sw (sw.filter id).length =
      ((calcGv par sw (sw.filter id).length).1, gm) :=
  convGv_variance par sw gm hlen hpos hsqrt hv hr

theorem conv_gv_keeps_ineligible (par : List K) (sw : List Bool) (gvLen : Nat) (gm : K) (i : Nat)
    (hlen : par.length = sw.length) (hi : sw[i]? = some false) :
    (convGv par sw gvLen gm)[i]? = par[i]? :=
  convGv_ineligible par sw gvLen gm i hlen hi

/-- **GV-off contexts → per-state switch.** Whenever `Models::gv` yields a switch, state `k` of label `j` is
    GV-eligible exactly when label `j` matches none of the voice's GV-off patterns — wherever in the
    utterance the label stands. -/
theorem switch_is_outside_gv_off [FromFile K] (voices : List Hts.ParsedVoice) (v0 : Hts.ParsedVoice) (rest : List Hts.ParsedVoice)
    (hv : voices = v0 :: rest) (iw : IW K) (labels : List (List Char)) (nstate i : Nat)
    (gvp : List (MeanVari K)) (sw : List Bool)
    (h : Synth.modelsGv voices iw labels nstate i = .ok (some (gvp, sw))) :
    sw = (labels.map fun l => List.replicate nstate (!(Hts.questionTest v0.global.gvOff l))).flatten := by
  subst hv
  unfold Synth.modelsGv at h
  simp only at h
  split at h
  · cases h
  · split at h
    · cases h
    · cases labels with
      | nil => cases h
      | cons l0 ls =>
        simp only at h
        cases hb : Synth.blend (iw.gv.getD i []) ((v0 :: rest).map fun v =>
            (Synth.streamOf v i).bind fun s => s.gv.bind fun g => Synth.select (α := K) g 2 l0) with
        | ok mp => rw [hb] at h; simp only [Outcome.map] at h; cases h; rfl
        | err e => rw [hb] at h; simp [Outcome.map] at h
        | panic s => rw [hb] at h; simp [Outcome.map] at h

/-! ### for the whole library (`Jb/Proofs/SynthBridge2.lean`) -/

/-- **C12 from the voice files: a stream without GV is unaffected by its GV weight.** If the first voice's stream `j` has
    `USE_GV = 0` (or there are no labels), appending `set_gv_weight(j, x)` to any history changes neither the trajectories nor
    the waveform. -/
theorem library_no_gv_ignores_weight {K : Type} [Field K] [LinearOrder K] [IsStrictOrderedRing K] [FloorRing K]
    [Transc K] [Consts K] [MlpgConsts K] [FromFile K] (fx : Fix) (big : K)
    (voices : List Hts.ParsedVoice) (iw : IW K) (ops : List (CondOp K)) (f : Condition K → Bool) (hf : Synth.SpeedOnly f)
    (labels : List (List Char)) (times : List (K × K)) (j : Nat) (x : K)
    (hno : labels = [] ∨ ∀ v0 s0, voices.head? = some v0 → v0.streams[j]? = some s0 → s0.info.useGv = false) :
    Synth.params big voices iw (ops ++ [.gv j x]) f labels times = Synth.params big voices iw ops f labels times ∧
    Synth.synthesize fx big voices iw (ops ++ [.gv j x]) f labels times = Synth.synthesize fx big voices iw ops f labels times :=
  Synth.synthesize_gv_no_gv fx big voices iw ops f hf labels times j x hno

/-- the GV switch the stages receive for stream `j` is "label outside the voice's GV-off contexts", once per state -/
theorem library_gv_switch {K : Type} [Field K] [LinearOrder K] [IsStrictOrderedRing K] [FloorRing K]
    [Transc K] [Consts K] [MlpgConsts K] [FromFile K] (big : K) (v0 : Hts.ParsedVoice) (vs : List Hts.ParsedVoice) (iw : IW K)
    (labels : List (List Char)) (times : List (K × K)) (inp : EngineIn K)
    (hin : Synth.engineIn big (v0 :: vs) iw labels times = .ok inp)
    (j : Nat) (s : StreamIn K) (hs : inp.streams[j]? = some s) (g : List (MeanVari K)) (sw : List Bool)
    (hg : s.gv = some (g, sw)) :
    sw = (labels.map fun l => List.replicate v0.global.nstates (!(Hts.questionTest v0.global.gvOff l))).flatten :=
  Synth.engineIn_gv_switch_eq big v0 vs iw labels times inp hin j s hs g sw hg

end Jb.C12
