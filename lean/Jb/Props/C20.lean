/-
  C20 — condition setters clamp to their documented ranges and round-trip.

  Theorems are over any linearly ordered field `K` (exact arithmetic); `usize` is `Nat`.
  The `Float` instantiation of the same definitions is what the driver runs against the Rust code.
-/
import Jb.Model.Condition
import Mathlib.Algebra.Order.Field.Basic
import Mathlib.Tactic.Linarith
import Mathlib.Tactic.FieldSimp

set_option linter.unusedSectionVars false

namespace Jb.C20
open Jb Jb.Condition

variable {K : Type} [Field K] [LinearOrder K] [IsStrictOrderedRing K] [Transc K] [Consts K]

/-! ### the clamp law -/

theorem clampS_eq (x lo hi : K) (h : lo ≤ hi) : clampS x lo hi = max lo (min x hi) := by
  unfold clampS
  split
  · rename_i h1; rw [max_eq_left]; exact le_trans (min_le_left _ _) (le_of_lt h1)
  · split
    · rename_i h1 h2; rw [min_eq_right (le_of_lt h2), max_eq_right h]
    · rename_i h1 h2
      rw [min_eq_left (not_lt.mp h2), max_eq_right (not_lt.mp h1)]

theorem clampS_mem (x lo hi : K) (h : lo ≤ hi) : lo ≤ clampS x lo hi ∧ clampS x lo hi ≤ hi := by
  rw [clampS_eq x lo hi h]; exact ⟨le_max_left _ _, max_le h (min_le_right _ _)⟩

theorem clampS_id (x lo hi : K) (h1 : lo ≤ x) (h2 : x ≤ hi) : clampS x lo hi = x := by
  unfold clampS; rw [if_neg (not_lt.mpr h1), if_neg (not_lt.mpr h2)]

theorem maxS_eq (x lo : K) : maxS x lo = max x lo := by
  unfold maxS; split
  · rename_i h; rw [max_eq_right (le_of_lt h)]
  · rename_i h; rw [max_eq_left (not_lt.mp h)]

/-! ### each setter: the matching getter returns the clamped argument -/

theorem set_sampling_frequency (c : Condition K) (i : Nat) :
    (c.setSamplingFrequency i).samplingFrequency = max i 1 := rfl
theorem set_fperiod (c : Condition K) (i : Nat) : (c.setFperiod i).fperiod = max i 1 := rfl
theorem sampling_frequency_ge_one (c : Condition K) (i : Nat) :
    1 ≤ (c.setSamplingFrequency i).samplingFrequency := le_max_right _ _
theorem fperiod_ge_one (c : Condition K) (i : Nat) : 1 ≤ (c.setFperiod i).fperiod :=
  le_max_right _ _
theorem set_speed (c : Condition K) (f : K) : (c.setSpeed f).speed = max f speedMin :=
  maxS_eq _ _
theorem set_alpha (c : Condition K) (f : K) : (c.setAlpha f).alpha = max 0 (min f 1) :=
  clampS_eq _ _ _ zero_le_one
theorem set_beta (c : Condition K) (f : K) : (c.setBeta f).beta = max 0 (min f 1) :=
  clampS_eq _ _ _ zero_le_one
theorem set_half_tone (c : Condition K) (f : K) : (c.setHalfTone f).halfTone = f := rfl
theorem set_alignment (c : Condition K) (b : Bool) : (c.setAlignment b).alignment = b := rfl

theorem set_msd_threshold (c : Condition K) (i : Nat) (f : K) (hi : i < c.msdThreshold.length) :
    ∃ c', c.setMsdThreshold i f = .ok c' ∧ c'.msdThreshold[i]? = some (max 0 (min f 1)) ∧
      (∀ j, j ≠ i → c'.msdThreshold[j]? = c.msdThreshold[j]?) ∧
      c'.msdThreshold.length = c.msdThreshold.length := by
  refine ⟨{ c with msdThreshold := c.msdThreshold.set i (clampS f 0 1) }, ?_, ?_, ?_, ?_⟩
  · unfold setMsdThreshold; rw [if_pos hi]
  · simp [hi, clampS_eq f 0 1 zero_le_one]
  · intro j hj; simp [List.getElem?_set, Ne.symm hj]
  · simp

theorem set_gv_weight (c : Condition K) (i : Nat) (f : K) (hi : i < c.gvWeight.length) :
    ∃ c', c.setGvWeight i f = .ok c' ∧ c'.gvWeight[i]? = some (max f 0) ∧
      (∀ j, j ≠ i → c'.gvWeight[j]? = c.gvWeight[j]?) ∧
      c'.gvWeight.length = c.gvWeight.length := by
  refine ⟨{ c with gvWeight := c.gvWeight.set i (maxS f 0) }, ?_, ?_, ?_, ?_⟩
  · unfold setGvWeight; rw [if_pos hi]
  · simp [hi, maxS_eq]
  · intro j hj; simp [List.getElem?_set, Ne.symm hj]
  · simp

/-- The only way an indexed setter fails is the index panic the Rust code has. -/
theorem set_msd_threshold_oob (c : Condition K) (i : Nat) (f : K)
    (hi : ¬ i < c.msdThreshold.length) : ∃ s, c.setMsdThreshold i f = .panic s := by
  unfold setMsdThreshold; rw [if_neg hi]; exact ⟨_, rfl⟩

/-! ### volume: dB round trip (needs only `ln ∘ exp = id` and `DB ≠ 0`) -/

theorem volume_roundtrip (hle : ∀ x : K, Transc.ln (Transc.exp x) = x)
    (hdb : (Consts.db : K) ≠ 0) (c : Condition K) (v : K) :
    (c.setVolume v).getVolume = v := by
  unfold setVolume getVolume
  simp only [hle]
  field_simp

/-! ### frame conditions: a setter changes its own field only -/

/-- All getters except the named field, as a tuple. -/
def others (c : Condition K) (skip : Nat) :
    Option Nat × Option Nat × Option K × Option (List K) × Option (List K) × Option Bool ×
    Option K × Option K × Option K × Option K × Nat × Bool :=
  (if skip = 0 then none else some c.samplingFrequency,
   if skip = 1 then none else some c.fperiod,
   if skip = 2 then none else some c.volume,
   if skip = 3 then none else some c.msdThreshold,
   if skip = 4 then none else some c.gvWeight,
   if skip = 5 then none else some c.alignment,
   if skip = 6 then none else some c.speed,
   if skip = 7 then none else some c.alpha,
   if skip = 8 then none else some c.beta,
   if skip = 9 then none else some c.halfTone,
   c.stage, c.useLogGain)

/-- Which field an op is allowed to touch. -/
def CondOp.field : CondOp K → Nat
  | .sf _ => 0 | .fp _ => 1 | .vol _ => 2 | .msd _ _ => 3 | .gv _ _ => 4 | .align _ => 5
  | .speed _ => 6 | .alpha _ => 7 | .beta _ => 8 | .ht _ => 9

theorem frame (c c' : Condition K) (op : CondOp K) (h : CondOp.apply c op = .ok c') :
    others c' (CondOp.field op) = others c (CondOp.field op) := by
  cases op <;>
    simp only [CondOp.apply, Outcome.ok.injEq, setMsdThreshold, setGvWeight] at h
  all_goals first
    | (subst h; rfl)
    | (split at h
       · simp only [Outcome.ok.injEq] at h; subst h; rfl
       · exact absurd h (by simp))

/-! ### idempotence, last-wins, commutation on distinct scalar fields -/

theorem clampS_idem (x : K) : clampS (clampS x 0 1) 0 1 = clampS x 0 1 := by
  have h := clampS_mem x 0 1 zero_le_one
  exact clampS_id _ _ _ h.1 h.2

theorem set_alpha_idem (c : Condition K) (f : K) :
    (c.setAlpha f).setAlpha ((c.setAlpha f).alpha) = c.setAlpha f := by
  simp [setAlpha, clampS_idem]
theorem set_alpha_last (c : Condition K) (f g : K) : (c.setAlpha f).setAlpha g = c.setAlpha g := rfl
theorem set_beta_last (c : Condition K) (f g : K) : (c.setBeta f).setBeta g = c.setBeta g := rfl
theorem set_speed_last (c : Condition K) (f g : K) : (c.setSpeed f).setSpeed g = c.setSpeed g := rfl
theorem set_volume_last (c : Condition K) (f g : K) :
    (c.setVolume f).setVolume g = c.setVolume g := rfl
theorem alpha_beta_comm (c : Condition K) (f g : K) :
    (c.setAlpha f).setBeta g = (c.setBeta g).setAlpha f := rfl
theorem speed_volume_comm (c : Condition K) (f g : K) :
    (c.setSpeed f).setVolume g = (c.setVolume g).setSpeed f := rfl
theorem alpha_speed_comm (c : Condition K) (f g : K) :
    (c.setAlpha f).setSpeed g = (c.setSpeed g).setAlpha f := rfl
theorem sf_fp_comm (c : Condition K) (i j : Nat) :
    (c.setSamplingFrequency i).setFperiod j = (c.setFperiod j).setSamplingFrequency i := rfl

/-! ### a freshly loaded engine -/

theorem fresh_defaults (sr fp n : Nat) (st : Option Nat) (lg : Option Bool) (a : Option K) :
    let c := (Condition.default : Condition K).loadModel sr fp n st lg a
    c.volume = 1 ∧ c.speed = 1 ∧ c.msdThreshold = List.replicate n (1 / 2) ∧
    c.gvWeight = List.replicate n 1 ∧ c.beta = 0 ∧ c.halfTone = 0 ∧ c.alignment = false ∧
    c.samplingFrequency = sr ∧ c.fperiod = fp ∧ c.stage = st.getD 0 ∧
    c.useLogGain = lg.getD false ∧ c.alpha = a.getD 0 := by
  simp [Condition.default, loadModel, half]

/-- 0 dB: with `ln 1 = 0` the fresh volume reads back as 0. -/
theorem fresh_volume_db (hl1 : Transc.ln (1 : K) = 0) (sr fp n : Nat) :
    ((Condition.default : Condition K).loadModel sr fp n none none none).getVolume = 0 := by
  simp [Condition.default, loadModel, getVolume, hl1]

/-! ### non-vacuity: the hypotheses are met by a concrete, non-trivial condition over ℚ -/

instance : Transc ℚ := ⟨id, id, id, id, fun x _ => x⟩
instance : Consts ℚ := ⟨10, 3, 1 / 17, 1 / 9, -10000000000, 3, 1 / 10 ^ 100⟩

example : ∃ c' : Condition ℚ,
    ((Condition.default : Condition ℚ).loadModel 48000 240 3 none none (some (11 / 20))).setMsdThreshold
      1 (7 / 2) = .ok c' ∧ c'.msdThreshold = [1 / 2, 1, 1 / 2] := by
  refine ⟨_, rfl, ?_⟩
  simp [Condition.default, loadModel, half, clampS]
  norm_num

end Jb.C20
