/-
  C05 — generated trajectories are the maximum-likelihood solution (MLPG).

  What is a theorem here (over any linearly ordered field):
    * state expansion, MSD mask, boundary distances and `fill` are what the statement says
      (`Jb/Proofs/Mask.lean`);
    * the banded LDLᵀ factorisation with forward/backward substitution, exactly as the code runs it,
      returns a solution of the symmetric band system it is given whenever no pivot is zero — for
      every length and every band width (`Jb/Proofs/Ldl.lean`);
    * a solution of the normal equations with non-negative precisions maximises the Gaussian
      log-likelihood (`Jb/Proofs/Likelihood.lean`).
    * `calc_wuw_and_wum` assembles exactly the band of W'U⁻¹W and the vector W'U⁻¹μ for the window matrix
      W defined from scratch (`wpwEntry`, `wpmEntry`), provided observations whose span leaves the frame
      range carry zero precision — which is what `MlpgAdjust::create` arranges (`Jb/Proofs/Assemble.lean`;
      this is where the latent `break` of DESIGN.md F8 is shown harmless).
    * positive definiteness ⇒ every pivot is positive (`Jb/Proofs/Pivots.lean`), so the solver's hypothesis
      holds for the MLPG system (positive static precisions); `Jb/Proofs/MlpgMain.lean` combines these into
      "solve returns the solution of the dense normal equations";
    * `Jb/Proofs/MlpgMl.lean` closes the chain: the observation sequences `create` builds satisfy the edge
      hypothesis, and the returned trajectory maximises the log-likelihood over all sequences
      (`create_is_maximum_likelihood`).
-/
import Jb.Proofs.Mask
import Jb.Proofs.Ldl
import Jb.Proofs.Likelihood
import Jb.Proofs.Assemble
import Jb.Proofs.Pivots
import Jb.Proofs.MlpgMain
import Jb.Proofs.MlpgMl
import Jb.Proofs.Engine
import Mathlib.Tactic.NormNum
import Jb.Proofs.SynthBridge2

set_option linter.unusedSectionVars false

namespace Jb.C05
open Jb

variable {K : Type} [Field K] [LinearOrder K] [IsStrictOrderedRing K]

/-- Each frame takes the Gaussian of the state its duration assigns. -/
theorem frame_state {β : Type} (xs : List β) (durs : List Nat) (s f : Nat)
    (hs : s < xs.length) (hs' : s < durs.length)
    (hlo : (durs.take s).sum ≤ f) (hhi : f < (durs.take (s + 1)).sum) :
    (expand xs durs)[f]? = xs[s]? :=
  expand_spec xs durs s f hs hs' hlo hhi

theorem frame_count {β : Type} (xs : List β) (durs : List Nat) (h : durs.length ≤ xs.length) :
    (expand xs durs).length = durs.sum :=
  expand_length xs durs h

/-- Boundary distances are the voiced-run lengths on either side … -/
theorem boundary_distances (mask : List Bool) (f : Nat) (hf : f < mask.length) :
    (boundaryDistances mask)[f]? = some
      (if mask.getD f false then
        (((mask.take f).reverse.takeWhile id).length, ((mask.drop (f + 1)).takeWhile id).length)
       else (0, 0)) :=
  boundary_spec mask f hf

/-- … so a dynamic window (`lw` taps left, `rw` right) is ignored at frame `f` exactly when its span
    `[f − lw, f + rw]` touches an unvoiced frame or leaves the utterance. -/
theorem dynamic_ignored_iff (mask : List Bool) (f lw rw : Nat) (hf : f < mask.length) :
    (((mask.take f).reverse.takeWhile id).length < lw ∨ ((mask.drop (f + 1)).takeWhile id).length < rw) ↔
    ¬ ((lw ≤ f ∧ ∀ k, k < lw → mask.getD (f - 1 - k) false = true) ∧
       (f + rw < mask.length ∧ ∀ k, k < rw → mask.getD (f + 1 + k) false = true)) := by
  rw [left_cut_iff mask f lw hf, right_cut_iff mask f rw hf]
  tauto

/-- Unvoiced frames carry the no-data marker, voiced frames the solution in order. -/
theorem fill_spec {β : Type} (mask : List Bool) (xs : List β) (d : β)
    (h : xs.length = (mask.filter id).length) :
    ∃ r, maskFill mask xs d = some r ∧ r.length = mask.length ∧ filterBy r mask = xs ∧
      ∀ f : Nat, mask[f]? = some false → r[f]? = some d :=
  maskFill_spec mask xs d h

/-- **The solver solves.** `MlpgMatrix::solve` (LDLᵀ + substitutions as coded) returns `c` with
    `A c = r` for the symmetric band matrix `A` stored in `wuw` and `r = wum`, for every length and
    band width, provided no pivot is zero. -/
theorem solve_solves (m : MlpgMatrix K) (hw : 1 ≤ m.width) (hr : m.wum.length = m.wuw.length)
    (hrow : ∀ row ∈ m.wuw, row.length = m.width)
    (hpiv : ∀ t, t < m.wuw.length → bandAt (ldlRows m.width m.wuw) t 0 ≠ 0) :
    m.solve.length = m.wuw.length ∧
    ∀ t, t < m.wuw.length → bandMulVec m.width m.wuw m.solve t = m.wum.getD t 0 :=
  ldl_solves m.width hw m.wuw m.wum hr hrow hpiv

/-- **Pivots are positive** for a positive definite band matrix — so the solver never divides by zero on
    an MLPG system with positive static precisions. -/
theorem pivots_positive (w : Nat) (hw : 1 ≤ w) (rows : List (List K)) (hrow : ∀ row ∈ rows, row.length = w)
    (hpd : ∀ x : List K, x.length = rows.length → (∃ t, t < rows.length ∧ x.getD t 0 ≠ 0) → 0 < bandQuad w rows x) :
    ∀ t, t < rows.length → 0 < bandAt (ldlRows w rows) t 0 :=
  ldl_pivots_pos w hw rows hrow hpd

/-- Without GV the generated parameter sequence is that solution. -/
theorem par_no_gv (m : MlpgMatrix K) [Transc K] [Consts K] [MlpgConsts K] (vi : Nat) (w : K) (durs : List Nat) (mask : List Bool) :
    m.par none vi w durs mask = m.solve := rfl

/-- **Normal equations ⇒ maximum likelihood.** -/
theorem normal_equations_maximise {n : Nat} (obs : List (Obs K n)) (hp : ∀ o ∈ obs, 0 ≤ o.prec)
    (c : Fin n → K) (hc : ∀ t, normalResidual obs c t = 0) (c' : Fin n → K) :
    loglik obs c' ≤ loglik obs c :=
  normal_eq_is_max obs hp c hc c'

/-- **Band assembly.** Row `t` of `calc_wuw_and_wum` is `(W'PW)[t][t+j]`, `0 ≤ j < width`, and `(W'Pμ)[t]`. -/
theorem assembles_normal_equations [Transc K] [Consts K] [MlpgConsts K]
    (windows : List (List K)) (obs : List (List (MeanVari K))) (T width t : Nat)
    (ht : t < T) (hw : ∀ w ∈ windows, w.length ≤ width) (hobs : ∀ o ∈ obs, o.length = T)
    (hedge : EdgeZero windows obs T) :
    (wuwRow windows obs T width t).2 = wpmEntry windows obs T t ∧
    (wuwRow windows obs T width t).1.length = width ∧
    ∀ j, j < width → t + j < T → (wuwRow windows obs T width t).1.getD j 0 = wpwEntry windows obs T t (t + j) :=
  wuwRow_eq windows obs T width t ht hw hobs hedge

/-- **MLPG solves the normal equations, end to end.** For windows whose first is the static window `[1]`,
    non-negative precisions, positive static precisions and zero precision on observations whose span leaves
    the frame range, the matrix `calc_wuw_and_wum` builds is positive definite, no pivot vanishes, and
    `solve` returns `c` with `(W'PW) c = W'Pμ` — `W'PW` and `W'Pμ` written from the definition. -/
theorem solves_normal_equations [Transc K] [Consts K] [MlpgConsts K]
    (windows : List (List K)) (obs : List (List (MeanVari K))) (T : Nat)
    (hstatic : windows.head? = some [1]) (hlen : windows.length = obs.length)
    (hobs : ∀ o ∈ obs, o.length = T) (hedge : EdgeZero windows obs T)
    (hnonneg : ∀ o ∈ obs, ∀ mv ∈ o, 0 ≤ mv.vari) (hpos : ∀ mv ∈ obs.headD [], 0 < mv.vari)
    (m : MlpgMatrix K) (hm : calcWuwWum windows obs = some m) :
    m.solve.length = T ∧
    ∀ t, t < T →
      ((Finset.range T).sum fun t' => wpwEntry windows obs T t t' * m.solve.getD t' 0) = wpmEntry windows obs T t :=
  mlpg_solves_normal_equations windows obs T hstatic hlen hobs hedge hnonneg hpos m hm

/-- **The solver output is the maximum-likelihood sequence** — over every other sequence, for the scalar
    observations `obsOf` written from the definition (one per window and frame). -/
theorem solution_maximises_likelihood [Transc K] [Consts K] [MlpgConsts K]
    (windows : List (List K)) (obs : List (List (MeanVari K))) (T : Nat)
    (hstatic : windows.head? = some [1]) (hlen : windows.length = obs.length)
    (hobs : ∀ o ∈ obs, o.length = T) (hedge : EdgeZero windows obs T)
    (hnonneg : ∀ o ∈ obs, ∀ mv ∈ o, 0 ≤ mv.vari) (hpos : ∀ mv ∈ obs.headD [], 0 < mv.vari)
    (m : MlpgMatrix K) (hm : calcWuwWum windows obs = some m) (c' : Fin T → K) :
    loglik (obsOf windows obs T) c' ≤ loglik (obsOf windows obs T) (fun t => m.solve.getD t.val 0) :=
  mlpg_maximises_likelihood windows obs T hstatic hlen hobs hedge hnonneg hpos m hm c'

/-- **Edge precisions.** The observation sequences `MlpgAdjust::create` builds (compacted to the voiced
    frames) carry zero precision wherever a window's span leaves the voiced frames — the hypothesis of the
    assembly theorem holds by construction. -/
theorem create_edge_precisions_zero [Transc K] [Consts K] [MlpgConsts K]
    (veclen : Nat) (stream : List (StateParam K)) (thr : K) (durs : List Nat)
    (windows : List (List K)) (m : Nat) (hstatic : windows.head? = some [1]) (hd : durs.length ≤ stream.length) :
    EdgeZero windows (createObs veclen stream durs (maskCreate stream thr durs) windows m)
      ((maskCreate stream thr durs).filter id).length :=
  windowParams_edgeZero veclen stream thr durs windows m hstatic hd

/-- **C05, end to end.** What the model of `MlpgAdjust::create` returns for a stream without GV is, column by
    column and restricted to the voiced frames, the maximum-likelihood static sequence for the state
    Gaussians its durations assign and the voice's windows — better than or equal to every other sequence.
    Hypotheses: first window static `[1]`, precisions (after `with_ivar`) non-negative, static ones positive. -/
theorem create_is_maximum_likelihood [Transc K] [Consts K] [MlpgConsts K]
    (gvWeight thr : K) (s : StreamIn K) (durs : List Nat)
    (hgv : s.gv = none) (hstatic : s.windows.head? = some [1]) (hd : durs.length ≤ s.stream.length)
    (hnonneg : ∀ st ∈ s.stream, ∀ p ∈ st.params, 0 ≤ (withIvar p).vari)
    (hdflt : 0 ≤ (withIvar (⟨0, 0⟩ : MeanVari K)).vari)
    (hpos : ∀ st ∈ s.stream, ∀ m, m < s.vectorLength → 0 < (withIvar (st.params.getD m ⟨0, 0⟩)).vari)
    (traj : List (List K)) (h : mlpgCreate gvWeight thr s durs = .ok traj) (m : Nat) (hm : m < s.vectorLength) :
    let mask := maskCreate s.stream thr durs
    let T := (mask.filter id).length
    let obs := createObs s.vectorLength s.stream durs mask s.windows m
    let col := filterBy (traj.map fun r => r.getD m 0) mask
    col.length = T ∧
    ∀ c' : Fin T → K, loglik (obsOf s.windows obs T) c' ≤ loglik (obsOf s.windows obs T) (fun t => col.getD t.val 0) :=
  mlpgCreate_is_ml gvWeight thr s durs hgv hstatic hd hnonneg hdflt hpos traj h m hm

/-- … and `create` does return a trajectory (one row per frame) on every well-formed stream, so the statement
    above is about something: existence and optimality together. -/
theorem create_total_and_ml [FloorRing K] [Transc K] [Consts K] [MlpgConsts K]
    (gvWeight thr : K) (s : StreamIn K) (durs : List Nat)
    (hwf : StreamWF s) (hgv : s.gv = none) (hstatic : s.windows.head? = some [1]) (hd : durs.length ≤ s.stream.length)
    (hnonneg : ∀ st ∈ s.stream, ∀ p ∈ st.params, 0 ≤ (withIvar p).vari)
    (hdflt : 0 ≤ (withIvar (⟨0, 0⟩ : MeanVari K)).vari)
    (hpos : ∀ st ∈ s.stream, ∀ m, m < s.vectorLength → 0 < (withIvar (st.params.getD m ⟨0, 0⟩)).vari) :
    ∃ traj, mlpgCreate gvWeight thr s durs = .ok traj ∧ traj.length = durs.sum ∧
      ∀ m, m < s.vectorLength →
        let mask := maskCreate s.stream thr durs
        let T := (mask.filter id).length
        let obs := createObs s.vectorLength s.stream durs mask s.windows m
        let col := filterBy (traj.map fun r => r.getD m 0) mask
        col.length = T ∧
        ∀ c' : Fin T → K, loglik (obsOf s.windows obs T) c' ≤ loglik (obsOf s.windows obs T) (fun t => col.getD t.val 0) := by
  obtain ⟨traj, h, hl, _⟩ := mlpgCreate_shape_partial gvWeight thr s durs hwf hd (by simp [hgv])
  exact ⟨traj, h, hl, fun m hm =>
    mlpgCreate_is_ml gvWeight thr s durs hgv hstatic hd hnonneg hdflt hpos traj h m hm⟩

/-- a positive variance inside the representable range becomes a positive precision -/
theorem precision_positive [Transc K] [Consts K] [MlpgConsts K] (p : MeanVari K)
    (h0 : 0 < (MlpgConsts.ivarMax : K)) (hv : 0 < p.vari) (hhi : p.vari ≤ MlpgConsts.ivarHi) :
    0 < (withIvar p).vari :=
  withIvar_pos p h0 hv hhi

/-! Non-vacuity: a 3-frame, half-bandwidth-1 system over ℚ; the hypotheses of `solve_solves` hold and
    the solution is the exact rational one. -/
def exM : MlpgMatrix ℚ := { winSize := 2, length := 3, width := 2, wuw := [[2, 1], [3, 1], [4, 0]], wum := [1, 2, 3] }

example : exM.solve = [1 / 3, 1 / 3, 2 / 3] := by
  simp [exM, MlpgMatrix.solve, ldlRows, ldlRow, forwardSub, backwardSub, List.range, List.range.loop]
  norm_num

/-! Non-vacuity of `create_total_and_ml`: a two-state stream over ℚ with a static and a delta window meets
    every hypothesis. -/
section Example
local instance : Transc ℚ := ⟨id, id, id, id, fun x _ => x⟩
local instance : Consts ℚ := ⟨10, 3, 1 / 17, 1 / 9, -10000000000, 3, 1 / 10 ^ 100⟩
local instance : MlpgConsts ℚ := ⟨10 ^ 19, 1 / 10 ^ 19, 10 ^ 38⟩

def exS : StreamIn ℚ :=
  { vectorLength := 1, gv := none, windows := [[1], [-1 / 2, 0, 1 / 2]],
    stream := [⟨[⟨1, 1⟩, ⟨0, 2⟩], 1⟩, ⟨[⟨3, 1 / 2⟩, ⟨1, 4⟩], 1⟩] }

example : StreamWF exS ∧ exS.gv = none ∧ exS.windows.head? = some [1] ∧ [2, 1].length ≤ exS.stream.length ∧
    (∀ st ∈ exS.stream, ∀ p ∈ st.params, 0 ≤ (withIvar p).vari) ∧
    0 ≤ (withIvar (⟨0, 0⟩ : MeanVari ℚ)).vari ∧
    (∀ st ∈ exS.stream, ∀ m, m < exS.vectorLength → 0 < (withIvar (st.params.getD m ⟨0, 0⟩)).vari) := by
  refine ⟨⟨by simp [exS], by simp [exS]⟩, rfl, rfl, by simp [exS], ?_, ?_, ?_⟩
  · simp only [exS, List.mem_cons, List.not_mem_nil, or_false, forall_eq_or_imp, forall_eq]
    norm_num [withIvar, absS, MlpgConsts.ivarHi, MlpgConsts.ivarLo, MlpgConsts.ivarMax]
  · norm_num [withIvar, absS, MlpgConsts.ivarHi, MlpgConsts.ivarLo, MlpgConsts.ivarMax]
  · intro st hst m hm
    have hm0 : m = 0 := by simp [exS] at hm; exact hm
    subst hm0
    simp only [exS, List.mem_cons, List.not_mem_nil, or_false] at hst
    rcases hst with rfl | rfl <;>
      norm_num [withIvar, absS, MlpgConsts.ivarHi, MlpgConsts.ivarLo, MlpgConsts.ivarMax]
end Example

/-! ### for the whole library (`Jb/Proofs/SynthBridge2.lean`) -/

/-- **C05 from the voice files** (statement: `Synth.params_maximum_likelihood`). On a well-formed voice set, for a stream `j`
    whose stage input (`Models::model_stream(j)`) has no GV, a static first window and positive static variances, the
    trajectory `Engine::generator` hands to the vocoder is `mlpgCreate` of that stage input and the library's durations, has
    one row per frame, and every column restricted to the voiced frames maximises the Gaussian log-likelihood — the
    conclusion of `create_total_and_ml`, with well-formedness of the stream and the duration count derived from the voices. -/
alias library_trajectory_is_ml := Synth.params_maximum_likelihood

end Jb.C05
