/-
  C05 — generated trajectories are the maximum-likelihood solution (MLPG).

  What is a theorem here (over any linearly ordered field):
    * state expansion, MSD mask, boundary distances and `fill` are what the statement says
      (`Jb/Proofs/Mask.lean`);
    * the banded LDLᵀ factorisation with forward/backward substitution, exactly as the code runs it,
      returns a solution of the symmetric band system it is given whenever no pivot is zero — for
      every length and every band width (`Jb/Proofs/Ldl.lean`);
    * a solution of the normal equations with non-negative precisions maximises the Gaussian
      log-likelihood (`Jb/Proofs/Likelihood.lean`).
    * `calc_wuw_and_wum` assembles exactly the band of W'U⁻¹W and the vector W'U⁻¹μ for the window matrix
      W defined from scratch (`wpwEntry`, `wpmEntry`), provided observations whose span leaves the frame
      range carry zero precision — which is what `MlpgAdjust::create` arranges (`Jb/Proofs/Assemble.lean`;
      this is where the latent `break` of DESIGN.md F8 is shown harmless).
    * positive definiteness ⇒ every pivot is positive (`Jb/Proofs/Pivots.lean`), so the solver's hypothesis
      holds for the MLPG system (positive static precisions); the capstone combining all of this is
      `Jb/Proofs/MlpgMain.lean`.
-/
import Jb.Proofs.Mask
import Jb.Proofs.Ldl
import Jb.Proofs.Likelihood
import Jb.Proofs.Assemble
import Jb.Proofs.Pivots
import Mathlib.Tactic.NormNum

set_option linter.unusedSectionVars false

namespace Jb.C05
open Jb

variable {K : Type} [Field K] [LinearOrder K] [IsStrictOrderedRing K]

/-- Each frame takes the Gaussian of the state its duration assigns. -/
theorem frame_state {β : Type} (xs : List β) (durs : List Nat) (s f : Nat)
    (hs : s < xs.length) (hs' : s < durs.length)
    (hlo : (durs.take s).sum ≤ f) (hhi : f < (durs.take (s + 1)).sum) :
    (expand xs durs)[f]? = xs[s]? :=
  expand_spec xs durs s f hs hs' hlo hhi

theorem frame_count {β : Type} (xs : List β) (durs : List Nat) (h : durs.length ≤ xs.length) :
    (expand xs durs).length = durs.sum :=
  expand_length xs durs h

/-- Boundary distances are the voiced-run lengths on either side … -/
theorem boundary_distances (mask : List Bool) (f : Nat) (hf : f < mask.length) :
    (boundaryDistances mask)[f]? = some
      (if mask.getD f false then
        (((mask.take f).reverse.takeWhile id).length, ((mask.drop (f + 1)).takeWhile id).length)
       else (0, 0)) :=
  boundary_spec mask f hf

/-- … so a dynamic window (`lw` taps left, `rw` right) is ignored at frame `f` exactly when its span
    `[f − lw, f + rw]` touches an unvoiced frame or leaves the utterance. -/
theorem dynamic_ignored_iff (mask : List Bool) (f lw rw : Nat) (hf : f < mask.length) :
    (((mask.take f).reverse.takeWhile id).length < lw ∨ ((mask.drop (f + 1)).takeWhile id).length < rw) ↔
    ¬ ((lw ≤ f ∧ ∀ k, k < lw → mask.getD (f - 1 - k) false = true) ∧
       (f + rw < mask.length ∧ ∀ k, k < rw → mask.getD (f + 1 + k) false = true)) := by
  rw [left_cut_iff mask f lw hf, right_cut_iff mask f rw hf]
  tauto

/-- Unvoiced frames carry the no-data marker, voiced frames the solution in order. -/
theorem fill_spec {β : Type} (mask : List Bool) (xs : List β) (d : β)
    (h : xs.length = (mask.filter id).length) :
    ∃ r, maskFill mask xs d = some r ∧ r.length = mask.length ∧ filterBy r mask = xs ∧
      ∀ f : Nat, mask[f]? = some false → r[f]? = some d :=
  maskFill_spec mask xs d h

/-- **The solver solves.** `MlpgMatrix::solve` (LDLᵀ + substitutions as coded) returns `c` with
    `A c = r` for the symmetric band matrix `A` stored in `wuw` and `r = wum`, for every length and
    band width, provided no pivot is zero. -/
theorem solve_solves (m : MlpgMatrix K) (hw : 1 ≤ m.width) (hr : m.wum.length = m.wuw.length)
    (hrow : ∀ row ∈ m.wuw, row.length = m.width)
    (hpiv : ∀ t, t < m.wuw.length → bandAt (ldlRows m.width m.wuw) t 0 ≠ 0) :
    m.solve.length = m.wuw.length ∧
    ∀ t, t < m.wuw.length → bandMulVec m.width m.wuw m.solve t = m.wum.getD t 0 :=
  ldl_solves m.width hw m.wuw m.wum hr hrow hpiv

/-- **Pivots are positive** for a positive definite band matrix — so the solver never divides by zero on
    an MLPG system with positive static precisions. -/
theorem pivots_positive (w : Nat) (hw : 1 ≤ w) (rows : List (List K)) (hrow : ∀ row ∈ rows, row.length = w)
    (hpd : ∀ x : List K, x.length = rows.length → (∃ t, t < rows.length ∧ x.getD t 0 ≠ 0) → 0 < bandQuad w rows x) :
    ∀ t, t < rows.length → 0 < bandAt (ldlRows w rows) t 0 :=
  ldl_pivots_pos w hw rows hrow hpd

/-- Without GV the generated parameter sequence is that solution. -/
theorem par_no_gv (m : MlpgMatrix K) [Transc K] [Consts K] [MlpgConsts K] (vi : Nat) (w : K) (durs : List Nat) (mask : List Bool) :
    m.par none vi w durs mask = m.solve := rfl

/-- **Normal equations ⇒ maximum likelihood.** -/
theorem normal_equations_maximise {n : Nat} (obs : List (Obs K n)) (hp : ∀ o ∈ obs, 0 ≤ o.prec)
    (c : Fin n → K) (hc : ∀ t, normalResidual obs c t = 0) (c' : Fin n → K) :
    loglik obs c' ≤ loglik obs c :=
  normal_eq_is_max obs hp c hc c'

/-- **Band assembly.** Row `t` of `calc_wuw_and_wum` is `(W'PW)[t][t+j]`, `0 ≤ j < width`, and `(W'Pμ)[t]`. -/
theorem assembles_normal_equations [Transc K] [Consts K] [MlpgConsts K]
    (windows : List (List K)) (obs : List (List (MeanVari K))) (T width t : Nat)
    (ht : t < T) (hw : ∀ w ∈ windows, w.length ≤ width) (hobs : ∀ o ∈ obs, o.length = T)
    (hedge : EdgeZero windows obs T) :
    (wuwRow windows obs T width t).2 = wpmEntry windows obs T t ∧
    (wuwRow windows obs T width t).1.length = width ∧
    ∀ j, j < width → t + j < T → (wuwRow windows obs T width t).1.getD j 0 = wpwEntry windows obs T t (t + j) :=
  wuwRow_eq windows obs T width t ht hw hobs hedge

/-! Non-vacuity: a 3-frame, half-bandwidth-1 system over ℚ; the hypotheses of `solve_solves` hold and
    the solution is the exact rational one. -/
def exM : MlpgMatrix ℚ := { winSize := 2, length := 3, width := 2, wuw := [[2, 1], [3, 1], [4, 0]], wum := [1, 2, 3] }

example : exM.solve = [1 / 3, 1 / 3, 2 / 3] := by
  simp [exM, MlpgMatrix.solve, ldlRows, ldlRow, forwardSub, backwardSub, List.range, List.range.loop]
  norm_num

end Jb.C05
