/-
  C15 — additional half tone transposes F0 and nothing else.
-/
import Jb.Proofs.Engine
import Jb.Proofs.Shift
import Jb.Proofs.GvShift
import Jb.Proofs.HalfTone
import Jb.Proofs.EngineHalfTone
import Jb.Proofs.SynthBridge

set_option linter.unusedSectionVars false

namespace Jb.C15
open Jb

variable {K : Type} [Field K] [LinearOrder K] [IsStrictOrderedRing K] [FloorRing K]
  [Transc K] [Consts K] [MlpgConsts K]

/-- `h = 0` is the identity. -/
theorem halftone_zero (stream : List (StateParam K)) : applyHalfTone stream 0 = stream :=
  applyHalfTone_zero stream

/-- Every state's static log-F0 mean becomes `clamp(m + h·ln2/12)` (20 Hz..20 kHz); variances, dynamic
    means and voicing weights are untouched. -/
theorem halftone_static (stream : List (StateParam K)) (h : K) (hh : h ≠ 0) :
    applyHalfTone stream h = stream.map fun s =>
      match s.params with
      | [] => s
      | p :: rest => { s with params := ⟨clampS (p.mean + h * Consts.halfTone) Consts.minLf0 Consts.maxLf0, p.vari⟩ :: rest } :=
  applyHalfTone_spec stream h hh

/-- The voiced/unvoiced pattern does not change. -/
theorem halftone_mask (stream : List (StateParam K)) (h thr : K) (durs : List Nat) :
    maskCreate (applyHalfTone stream h) thr durs = maskCreate stream thr durs :=
  applyHalfTone_mask stream h thr durs

/-- Durations do not change. -/
theorem halftone_durations (c : Condition K) (h : K) (b : Bool) (inp : EngineIn K) :
    engineDurations (c.setHalfTone h) b inp = engineDurations c b inp :=
  engineDurations_congr _ _ b inp rfl rfl

/-- The spectral and low-pass trajectories do not change (every stream other than log-F0). -/
theorem halftone_isolation (c : Condition K) (h : K) (inp : EngineIn K) (durs : List Nat) (i : Nat) (hi : i ≠ 1) :
    engineStream (c.setHalfTone h) inp durs i = engineStream c inp durs i :=
  engineStream_congr _ _ inp durs i rfl rfl (fun h1 => absurd h1 hi)

/-- a shift `δ` that keeps the value inside the limits is a plain addition -/
theorem unclamped_shift (m δ : K) (h1 : (Consts.minLf0 : K) ≤ m + δ) (h2 : m + δ ≤ (Consts.maxLf0 : K)) :
    clampS (m + δ) (Consts.minLf0 : K) Consts.maxLf0 = m + δ := by
  unfold clampS; rw [if_neg (not_lt.mpr h1), if_neg (not_lt.mpr h2)]

/-- **The generated trajectory moves by exactly the shift.** Adding `h` to every static mean adds `h` to every
    frame of the maximum-likelihood trajectory, for windows whose dynamic coefficients sum to zero (delta
    windows) — because the band matrix ignores the means, the constant sequence solves the difference of the
    normal equations, and the solution is unique. -/
theorem trajectory_shift (windows : List (List K)) (obs : List (List (MeanVari K))) (T : Nat)
    (hstatic : windows.head? = some [1]) (hlen : windows.length = obs.length)
    (hobs : ∀ o ∈ obs, o.length = T) (hedge : EdgeZero windows obs T)
    (hnonneg : ∀ o ∈ obs, ∀ mv ∈ o, 0 ≤ mv.vari) (hpos : ∀ mv ∈ obs.headD [], 0 < mv.vari)
    (hsum : ∀ w ∈ windows.tail, w.sum = 0)
    (h : K) (m m' : MlpgMatrix K)
    (hm : calcWuwWum windows obs = some m) (hm' : calcWuwWum windows (shiftStatic obs h) = some m') :
    m'.solve = m.solve.map (· + h) :=
  mlpg_shift windows obs T hstatic hlen hobs hedge hnonneg hpos hsum h m m' hm hm'

/-- **… and through the global-variance iteration as well.** `MlpgMatrix::par` — the ML solution followed by
    `conv_gv` and the five Newton-like steps with their adaptive step size — commutes with the shift: the
    variance statistics ignore it, `A·par − W'Pμ` ignores it, and the objective changes by a constant that
    does not depend on the iterate, so the step-size decisions are the same. -/
theorem trajectory_shift_with_gv (windows : List (List K)) (obs : List (List (MeanVari K))) (T : Nat)
    (hstatic : windows.head? = some [1]) (hlen : windows.length = obs.length)
    (hobs : ∀ o ∈ obs, o.length = T) (hedge : EdgeZero windows obs T)
    (hnonneg : ∀ o ∈ obs, ∀ mv ∈ o, 0 ≤ mv.vari) (hpos : ∀ mv ∈ obs.headD [], 0 < mv.vari)
    (hsum : ∀ w ∈ windows.tail, w.sum = 0)
    (h : K) (m m' : MlpgMatrix K)
    (hm : calcWuwWum windows obs = some m) (hm' : calcWuwWum windows (shiftStatic obs h) = some m')
    (gv : Option (List (MeanVari K) × List Bool)) (vi : Nat) (gw : K) (durs : List Nat) (mask : List Bool)
    (hmask : (mask.filter id).length = T)
    (hsw : ∀ g sw, gv = some (g, sw) → (filterBy (expand sw durs) mask).length = T) :
    m'.par gv vi gw durs mask = (m.par gv vi gw durs mask).map (· + h) :=
  par_shift windows obs T hstatic hlen hobs hedge hnonneg hpos hsum h m m' hm hm' gv vi gw durs mask hmask hsw

/-- **C15, end to end at model level.** On the log-F0 stream `MlpgAdjust::create` after
    `apply_additional_half_tone(h)` returns, on every voiced frame, the trajectory without the shift plus
    `h·ln2/12` — through the maximum-likelihood solution and the GV iteration — as long as no state mean
    reaches the 20 Hz..20 kHz clamp (`Unclamped`); unvoiced frames keep the no-data marker; the number of
    frames is the same. -/
theorem halftone_moves_the_trajectory (gw thr : K) (s : StreamIn K) (durs : List Nat) (h : K) (hh : h ≠ 0)
    (hv : s.vectorLength = 1) (hwf : StreamWF s) (hstatic : s.windows.head? = some [1])
    (hsum : ∀ w ∈ s.windows.tail, w.sum = 0)
    (hd : durs.length ≤ s.stream.length)
    (hgv : ∀ g sw, s.gv = some (g, sw) → durs.length ≤ sw.length)
    (hnonneg : ∀ st ∈ s.stream, ∀ p ∈ st.params, 0 ≤ (withIvar p).vari)
    (hdflt : 0 ≤ (withIvar (⟨0, 0⟩ : MeanVari K)).vari)
    (hpos : ∀ st ∈ s.stream, 0 < (withIvar (st.params.getD 0 ⟨0, 0⟩)).vari)
    (hu : Unclamped s.stream h) :
    ∃ traj traj',
      mlpgCreate gw thr s durs = .ok traj ∧
      mlpgCreate gw thr { s with stream := applyHalfTone s.stream h } durs = .ok traj' ∧
      traj'.length = traj.length ∧
      ∀ f, f < traj.length →
        traj'.getD f [] =
          if (maskCreate s.stream thr durs).getD f false then (traj.getD f []).map (· + h * Consts.halfTone)
          else traj.getD f [] :=
  mlpgCreate_halfTone gw thr s durs h hh hv hwf hstatic hsum hd hgv hnonneg hdflt hpos hu

/-- **"Additional half tone transposes F0 and nothing else"** for everything `Engine::generator` hands to the vocoder:
    same durations, same spectrum and low-pass trajectories, same number of log-F0 frames, and log-F0 plus `h·ln2/12` on
    every voiced frame (no-data marker kept on unvoiced ones), while no state mean is clamped. -/
theorem pipeline_transposes_only_f0 (c : Condition K) (h : K) (hh : h ≠ 0) (h0 : c.halfTone = 0) (b : Bool)
    (inp : EngineIn K) (hwf : EngineWF c inp)
    (s1 : StreamIn K) (hs1 : inp.streams[1]? = some s1) (thr : K) (hthr : c.msdThreshold[1]? = some thr)
    (hstatic : s1.windows.head? = some [1]) (hsum : ∀ w ∈ s1.windows.tail, w.sum = 0)
    (hnonneg : ∀ st ∈ s1.stream, ∀ p ∈ st.params, 0 ≤ (withIvar p).vari)
    (hdflt : 0 ≤ (withIvar (⟨0, 0⟩ : MeanVari K)).vari)
    (hpos : ∀ st ∈ s1.stream, 0 < (withIvar (st.params.getD 0 ⟨0, 0⟩)).vari)
    (hu : Unclamped s1.stream h) :
    ∃ p p', engineParams c b inp = .ok p ∧ engineParams { c with halfTone := h } b inp = .ok p' ∧
      p'.durations = p.durations ∧ p'.spectrum = p.spectrum ∧ p'.lpf = p.lpf ∧
      p'.lf0.length = p.lf0.length ∧
      ∀ f, f < p.lf0.length →
        p'.lf0.getD f [] =
          if (maskCreate s1.stream thr p.durations).getD f false then (p.lf0.getD f []).map (· + h * Consts.halfTone)
          else p.lf0.getD f [] :=
  engineParams_halfTone c h hh h0 b inp hwf s1 hs1 thr hthr hstatic hsum hnonneg hdflt hpos hu

/-! ### for the whole library (`Jb/Proofs/SynthBridge.lean`) -/

/-- **C15 from the voice files, the "nothing else" half.** On a well-formed voice set, appending
    `set_additional_half_tone(h)` to any history leaves the durations, the spectral trajectory and the low-pass trajectory
    exactly as with `h = 0`, and the log-F0 trajectory keeps its length — for every `h`, no assumption on windows,
    variances or the clamp. (The shift itself, `Synth.params_halfTone_shift`, carries the engine-level theorem's
    hypotheses stated on `Models::model_stream(1)`.) -/
theorem library_half_tone_nothing_else {K : Type} [Field K] [LinearOrder K] [IsStrictOrderedRing K] [FloorRing K]
    [Transc K] [Consts K] [MlpgConsts K] [FromFile K] (big : K) (voices : List Hts.ParsedVoice) (iw : IW K)
    (h : Synth.VoicesWF voices iw) (v0 : Hts.ParsedVoice) (hv0 : voices.head? = some v0) (ops : List (CondOp K))
    (f : Condition K → Bool) (hf : Synth.SpeedOnly f) (labels : List (List Char)) (times : List (K × K))
    (halign : (Synth.condOf (K := K) v0 ops).alignment = true → times.length = labels.length) (ht : K) :
    ∃ p p', Synth.params big voices iw (ops ++ [.ht 0]) f labels times = .ok p ∧
      Synth.params big voices iw (ops ++ [.ht ht]) f labels times = .ok p' ∧
      p'.durations = p.durations ∧ p'.spectrum = p.spectrum ∧ p'.lpf = p.lpf ∧ p'.lf0.length = p.lf0.length :=
  Synth.params_halfTone_frame big voices iw h v0 hv0 ops f hf labels times halign ht

end Jb.C15
