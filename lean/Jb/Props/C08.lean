/-
  C08 — speaking rate scales the utterance, never below one frame per state.

  Model: `Jb/Model/Duration.lean` (`durationCreate`, `estimateWithFrameLength`, `greedyLoop`).
  Scalars: any linearly ordered field with a floor (`roundMax1 x = max 1 ⌊x + 1/2⌋₊`).
  Helper lemmas live in `Jb/Proofs/Duration.lean`; this file holds only the property theorems.
-/
import Jb.Proofs.Total
import Jb.Proofs.Duration
import Mathlib.Data.Rat.Floor
import Mathlib.Tactic.NormNum

set_option linter.unusedSectionVars false

namespace Jb.C08
open Jb

variable {K : Type} [Field K] [LinearOrder K] [IsStrictOrderedRing K] [FloorRing K]

/-- total frames at speed 1 -/
def F1 (ps : List (MeanVari K)) : Nat := (estimateDuration ps 0).sum

/-- At speed 1 every state lasts `round(mean)` frames but at least 1. -/
theorem create_one (ps : List (MeanVari K)) :
    durationCreate ps 1 true = .ok (ps.map fun p => max 1 ⌊p.mean + 1 / 2⌋₊) :=
  Jb.durationCreate_one ps

/-- `create` never panics (the `unwrap()` on an empty `min_by` is unreachable) and the fuel
    `|target − sum|` given to the greedy loop always suffices: it returns a vector. -/
theorem create_total_fn (ps : List (MeanVari K)) (s : K) (b : Bool) :
    ∃ d, durationCreate ps s b = .ok d :=
  Jb.durationCreate_ok ps s b

/-- One duration per state, each at least one frame, at every speed. -/
theorem create_shape (ps : List (MeanVari K)) (s : K) (b : Bool) (d : List Nat)
    (h : durationCreate ps s b = .ok d) : d.length = ps.length ∧ ∀ x ∈ d, 1 ≤ x :=
  Jb.durationCreate_shape ps s b d h

/-- At any other speed the total is `max(round(F1/s), number of states)`. -/
theorem create_total (ps : List (MeanVari K)) (s : K) (d : List Nat) (hne : ps ≠ [])
    (h : durationCreate ps s false = .ok d) :
    d.sum = max (RoundNat.roundMax1 ((F1 ps : K) / s)) ps.length :=
  Jb.durationCreate_sum ps s d hne h

theorem create_empty (s : K) (b : Bool) : durationCreate ([] : List (MeanVari K)) s b = .ok [] :=
  Jb.durationCreate_nil s b

/-- Total length is non-increasing in the speed. -/
theorem create_antitone (ps : List (MeanVari K)) (s s' : K) (d d' : List Nat) (hne : ps ≠ [])
    (hs : 0 < s) (hss : s ≤ s') (h : durationCreate ps s false = .ok d)
    (h' : durationCreate ps s' false = .ok d') : d'.sum ≤ d.sum := by
  rw [create_total ps s d hne h, create_total ps s' d' hne h']
  apply max_le_max _ le_rfl
  apply roundMax1_mono
  exact div_le_div_of_nonneg_left (Nat.cast_nonneg _) hs hss

/-! Non-vacuity: a concrete 3-state model over ℚ; speed 2 halves the 12 frames to 6, speed 100 hits
    the one-frame-per-state floor. -/
example : durationCreate ([⟨2, 1⟩, ⟨4, 1⟩, ⟨6, 2⟩] : List (MeanVari ℚ)) 1 true = .ok [2, 4, 6] := by
  rw [create_one]; norm_num [Nat.floor_eq_iff]

/-- **Speaking rate scales the utterance** — for the whole pipeline model: at speed `s ≠ 1` (no alignment) synthesis
    returns exactly `frame_period × max(round(F1/s), number of states)` samples, `F1` the speed-1 frame count. -/
theorem synthesize_length_at_speed [Transc K] [Consts K] [MlpgConsts K] (fx : Fix) (c : Condition K) (inp : EngineIn K)
    (hwf : EngineWF c inp) (halign : c.alignment = false) (hne : inp.duration ≠ []) :
    ∃ w, engineSynthesize fx c false inp = .ok w ∧
      w.length = c.fperiod * max (RoundNat.roundMax1 ((F1 inp.duration : K) / c.speed)) inp.duration.length := by
  obtain ⟨durs, w, h1, _, _, h4, h5⟩ := engineSynthesize_total fx c inp hwf false
  refine ⟨w, h4, ?_⟩
  have hd : durationCreate inp.duration c.speed false = .ok durs := by
    unfold engineDurations at h1
    simpa [halign] using h1
  rw [h5, create_total inp.duration c.speed durs hne hd]

end Jb.C08
