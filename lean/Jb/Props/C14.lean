/-
  C14 — the postfilter sharpens formants and preserves energy.

  Theorems (ordered field): the coefficient law of `postfilter_mcp` (orders ≥ 2 times 1+β, order 1
  unchanged, order 0 shifted by ½·ln(e₁/e₂) − βα²b₂ with e₁,e₂ the `b2en` energies), the no-op cases,
  and — for the energy estimate to be meaningful — `freqt` at α = 0 is the identity with the repaired
  input order, while the pinned commit's order reverses the cepstrum (the defect, fix 4304ae0).
  `postfilter_preserves_energy`: the compensation restores the 576-tap `b2en` energy exactly.
  The 1 % clause of the property compares the *true* impulse-response energy of the running (Padé-approximated)
  filter with and without β; that part is decided on every run from pulse responses through the public Vocoder.
-/
import Jb.Proofs.Postfilter
import Jb.Proofs.Energy

set_option linter.unusedSectionVars false

namespace Jb.C14
open Jb

variable {K : Type} [Field K] [LinearOrder K] [IsStrictOrderedRing K] [Transc K] [Consts K]

theorem postfilter_noop (fx : Fix) (alpha beta : K) (c : List K) (h : ¬ 0 < beta ∨ c.length ≤ 2) :
    postfilterMcp fx alpha beta c = c := postfilterMcp_noop fx alpha beta c h

theorem beta_zero_changes_nothing (fx : Fix) (alpha : K) (c : List K) : postfilterMcp fx alpha 0 c = c :=
  postfilterMcp_noop fx alpha 0 c (Or.inl (lt_irrefl 0))

theorem postfilter_coeffs (fx : Fix) (alpha beta : K) (c : List K) (hb : 0 < beta) (hl : 2 < c.length) :
    let c' := postfilterMcp fx alpha beta c
    let b := mc2b alpha c
    let b' := (List.range b.length).zip b |>.map fun (k, x) =>
      if k = 1 then b.getD 1 0 - beta * alpha * b.getD 2 0 else if k ≥ 2 then x * (1 + beta) else x
    c'.length = c.length ∧
    (∀ k, 2 ≤ k → k < c.length → c'.getD k 0 = (1 + beta) * c.getD k 0) ∧
    c'.getD 1 0 = c.getD 1 0 ∧
    c'.getD 0 0 = c.getD 0 0 + Transc.ln (b2en fx alpha b / b2en fx alpha b') / ((2 : Nat) : K)
                  - beta * alpha * alpha * b.getD 2 0 :=
  postfilterMcp_coeffs fx alpha beta c hb hl

/-- the energy estimate sees the right spectrum: at α = 0 the frequency transform is the identity -/
theorem freqt_zero_identity (c : List K) (hc : c ≠ []) : freqt true c (c.length - 1) 0 = c :=
  freqt_zero_id c hc

/-- the defect of the pinned commit as a statement about its model -/
theorem pinned_freqt_reverses : freqt false ([1, 2, 3] : List ℚ) 2 0 = [3, 2, 1] := freqt_pinned_reverses
theorem fixed_freqt_identity : freqt true ([1, 2, 3] : List ℚ) 2 0 = [1, 2, 3] := freqt_fixed_identity

/-- **Energy is preserved.** The gain compensation `ln(e₁/e₂)/2` on `b[0]` restores the energy of the 576-tap
    impulse response exactly: the `b2en` energy after `postfilter_mcp` equals the energy before, for every
    order, α and β (hypotheses: `exp` additive and positive, `exp ∘ ln = id` on positives). -/
theorem postfilter_preserves_energy
    (hexp : ∀ a b : K, Transc.exp (a + b) = Transc.exp a * Transc.exp b)
    (hpos : ∀ a : K, 0 < Transc.exp a)
    (hln : ∀ x : K, 0 < x → Transc.exp (Transc.ln x) = x)
    (b : Bool) (alpha beta : K) (c : List K) :
    b2en ⟨true, b⟩ alpha (mc2b alpha (postfilterMcp ⟨true, b⟩ alpha beta c)) = b2en ⟨true, b⟩ alpha (mc2b alpha c) :=
  postfilterMcp_energy hexp hpos hln b alpha beta c

/-- shifting `c[0]` by `δ` scales every tap of the impulse response by `exp δ` -/
theorem gain_scales_impulse_response (hexp : ∀ a b : K, Transc.exp (a + b) = Transc.exp a * Transc.exp b)
    (δ c0 : K) (rest : List K) (len : Nat) :
    c2ir ((c0 + δ) :: rest) len = (c2ir (c0 :: rest) len).map (· * Transc.exp δ) :=
  c2ir_shift0 hexp δ c0 rest len

end Jb.C14
