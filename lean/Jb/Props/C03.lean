/-
  C03 — synthesis is a deterministic pure function, safe to share across threads.

  Theorems: (i) schedule irrelevance for call-local state machines over one shared read-only engine
  value — the abstract content of "safe to share": whatever interleaving a scheduler picks, every
  caller gets the outputs and final state it gets running alone; (ii) synthesis and generator
  construction are *functions* of (engine value, labels) in the model — repeating, cloning (equal
  value) and interleaving cannot change them, and they do not return a new engine value at all;
  (iii) a setter history has the effect of the last call on each setting, and calls on different
  settings commute — so how the condition reached its values is irrelevant.
  What no theorem here can exhibit — real thread interleavings, data races, hidden statics — is
  **partial**: carried by Rust's type system (`Engine: Send + Sync` is a compile-time assertion in the
  harness; a source scan for interior mutability is recorded in the evidence) and by running 2..16
  threads on one shared engine and comparing bitwise with the sequential run.
-/
import Jb.Proofs.Sys
import Jb.Model.Engine
import Jb.Proofs.Field

set_option linter.unusedSectionVars false

namespace Jb.C03
open Jb

/-- **Schedule irrelevance.** -/
theorem schedule_irrelevant {E S O : Type} (step : E → S → S × O) (env : E) (sts : List S) (sched : List Nat)
    (i : Nat) (s : S) (hs : sts[i]? = some s) :
    ((interleave step env sts sched).2.filter (fun p => p.1 == i)).map (·.2) =
      (runAlone step env s (sched.count i)).2 ∧
    (interleave step env sts sched).1[i]? = some (runAlone step env s (sched.count i)).1 :=
  interleave_proj step env sts sched i s hs

/-- two schedules that give caller `i` the same number of steps give it the same outputs -/
theorem schedules_agree {E S O : Type} (step : E → S → S × O) (env : E) (sts : List S) (σ τ : List Nat)
    (i : Nat) (s : S) (hs : sts[i]? = some s) (hc : σ.count i = τ.count i) :
    ((interleave step env sts σ).2.filter (fun p => p.1 == i)).map (·.2) =
    ((interleave step env sts τ).2.filter (fun p => p.1 == i)).map (·.2) := by
  rw [(interleave_proj step env sts σ i s hs).1, (interleave_proj step env sts τ i s hs).1, hc]

variable {K : Type} [Field K] [LinearOrder K] [IsStrictOrderedRing K] [Transc K] [Consts K]

/-- **History irrelevance.** Only the last call on each setting matters … -/
theorem setters_last_wins (c : Condition K) (ops : List (CondOp K)) :
    applyHistory c ops = applyHistory c (lastCalls ops) :=
  applyHistory_lastCalls c ops

/-- … so two histories with the same last calls leave the same condition, … -/
theorem same_last_calls_same_condition (c : Condition K) (h1 h2 : List (CondOp K))
    (h : lastCalls h1 = lastCalls h2) : applyHistory c h1 = applyHistory c h2 := by
  rw [applyHistory_lastCalls c h1, applyHistory_lastCalls c h2, h]

/-- … and calls on different settings commute. -/
theorem setters_commute (c : Condition K) (a b : CondOp K) (h : a.key ≠ b.key) :
    applyHistory c [a, b] = applyHistory c [b, a] :=
  applyHistory_swap c a b h

/-- Equal conditions synthesize equally (congruence: synthesis is a function of the condition value,
    the voice-derived inputs and the labels — it has no other input and returns no new engine). -/
theorem equal_condition_equal_waveform [FloorRing K] [MlpgConsts K] (fx : Fix) (c c' : Condition K)
    (b : Bool) (inp : EngineIn K) (h : c = c') :
    engineSynthesize fx c b inp = engineSynthesize fx c' b inp := by rw [h]

end Jb.C03
