/-
  C08 for the whole library: the engine-level speed law lifted to `Synth.synthesize` (voice files, weights, setter history,
  label text). Separate from `Jb/Props/C08.lean` only because `Jb/Proofs/SynthBridge.lean` uses that file's definitions.
-/
import Jb.Proofs.SynthBridge

set_option linter.unusedSectionVars false

namespace Jb.C08
open Jb

/-! ### for the whole library (`Jb/Proofs/SynthBridge.lean`) -/

/-- **C08 from the voice files.** On a well-formed voice set, alignment off, a history ending in `set_speed(s)` with
    `s ≠ 1` (the model's speed test answers `false`): `Engine::synthesize` returns `frame_period × F` samples with
    `F = max(round(F1 / max(s, 1e-6)), labels × states)`, `F1` the speed-1 total of the interpolated duration model, and
    every state lasts at least one frame. -/
theorem library_speed_law {K : Type} [Field K] [LinearOrder K] [IsStrictOrderedRing K] [FloorRing K]
    [Transc K] [Consts K] [MlpgConsts K] [FromFile K] (fx : Fix) (big : K) (voices : List Hts.ParsedVoice) (iw : IW K)
    (h : Synth.VoicesWF voices iw) (v0 : Hts.ParsedVoice) (hv0 : voices.head? = some v0) (ops : List (CondOp K))
    (f : Condition K → Bool) (labels : List (List Char)) (times : List (K × K)) (s : K)
    (halign : (Synth.condOf (K := K) v0 ops).alignment = false) (hne : labels ≠ [])
    (hf : f (Synth.condOf v0 (ops ++ [.speed s])) = false) :
    ∃ (durs : List Nat) (w : List K), Synth.synthesize fx big voices iw (ops ++ [.speed s]) f labels times = .ok w ∧
      w.length = (Synth.condOf (K := K) v0 ops).fperiod * durs.sum ∧
      durs.length = labels.length * v0.global.nstates ∧ (∀ d ∈ durs, 1 ≤ d) ∧
      durs.sum = max (RoundNat.roundMax1 ((Synth.frames1 voices iw labels : K) / maxS s speedMin))
        (labels.length * v0.global.nstates) :=
  Synth.synthesize_speed fx big voices iw h v0 hv0 ops f labels times s halign hne hf

end Jb.C08
