/-
  C11 — voicing follows each stream's MSD threshold.
-/
import Jb.Proofs.Engine
import Jb.Proofs.Excitation
import Jb.Proofs.SynthBridge

set_option linter.unusedSectionVars false

namespace Jb.C11
open Jb

variable {K : Type} [Field K] [LinearOrder K] [IsStrictOrderedRing K] [FloorRing K]
  [Transc K] [Consts K] [MlpgConsts K]

/-- A frame is voiced iff the voicing weight of the state its duration assigns exceeds the threshold. -/
theorem voiced_iff (stream : List (StateParam K)) (thr : K) (durs : List Nat) (s f : Nat)
    (hs : s < stream.length) (hs' : s < durs.length)
    (hlo : (durs.take s).sum ≤ f) (hhi : f < (durs.take (s + 1)).sum) :
    (maskCreate stream thr durs)[f]? = some (decide (thr < (stream.getD s ⟨[], 0⟩).msd)) :=
  mask_spec stream thr durs s f hs hs' hlo hhi

/-- Raising the threshold can only turn voiced frames unvoiced, never the reverse. -/
theorem threshold_antitone (stream : List (StateParam K)) (thr thr' : K) (h : thr ≤ thr') (durs : List Nat)
    (f : Nat) (hv : (maskCreate stream thr' durs)[f]? = some true) :
    (maskCreate stream thr durs)[f]? = some true :=
  mask_antitone stream thr thr' h durs f hv

/-- Unvoiced frames carry no F0 (the no-data marker, in every dimension) … -/
theorem unvoiced_nodata (gw thr : K) (s : StreamIn K) (durs : List Nat) (rows : List (List K))
    (h : mlpgCreate gw thr s durs = .ok rows) (f : Nat)
    (hm : (maskCreate s.stream thr durs)[f]? = some false) :
    rows[f]? = some (List.replicate s.vectorLength Consts.nodata) :=
  mlpgCreate_nodata gw thr s durs rows h f hm

/-- … and the vocoder renders no-data as period 0, i.e. the noise branch of the excitation. -/
theorem nodata_is_unvoiced (rate : Nat) : periodOfLf0 rate (Consts.nodata : K) = 0 := period_nodata rate

/-- Changing another stream's threshold or GV weight leaves stream `i`'s trajectory unchanged. -/
theorem stream_isolation (c c' : Condition K) (inp : EngineIn K) (durs : List Nat) (i : Nat)
    (hg : c.gvWeight[i]? = c'.gvWeight[i]?) (ht : c.msdThreshold[i]? = c'.msdThreshold[i]?)
    (hh : c.halfTone = c'.halfTone) :
    engineStream c inp durs i = engineStream c' inp durs i :=
  engineStream_congr c c' inp durs i hg ht (fun _ => hh)

/-- in particular: the setters for stream `j ≠ i` -/
theorem other_stream_setters (c : Condition K) (inp : EngineIn K) (durs : List Nat) (i j : Nat) (hij : j ≠ i)
    (t g : K) (c1 c2 : Condition K) (h1 : c.setMsdThreshold j t = .ok c1) (h2 : c1.setGvWeight j g = .ok c2) :
    engineStream c2 inp durs i = engineStream c inp durs i := by
  apply engineStream_congr
  · unfold Condition.setMsdThreshold at h1; unfold Condition.setGvWeight at h2
    split at h1 <;> split at h2 <;> simp_all
    subst h1; subst h2; simp [List.getElem?_set, hij]
  · unfold Condition.setMsdThreshold at h1; unfold Condition.setGvWeight at h2
    split at h1 <;> split at h2 <;> simp_all
    subst h1; subst h2; simp [List.getElem?_set, hij]
  · intro _
    unfold Condition.setMsdThreshold at h1; unfold Condition.setGvWeight at h2
    split at h1 <;> split at h2 <;> simp_all
    subst h1; subst h2; rfl

/-- a stream that is not multi-space (weight = `f64::MAX` stand-in `big` above every threshold) is all voiced -/
theorem non_msd_all_voiced (stream : List (StateParam K)) (thr big : K) (hb : thr < big)
    (hall : ∀ s ∈ stream, s.msd = big) (durs : List Nat) (f : Nat) (b : Bool)
    (h : (maskCreate stream thr durs)[f]? = some b) : b = true := by
  unfold maskCreate at h
  rw [expand_map] at h
  rw [List.getElem?_map] at h
  cases hx : (expand stream durs)[f]? with
  | none => simp [hx] at h
  | some s =>
    simp only [hx, Option.map_some, Option.some.injEq] at h
    have hmem : s ∈ stream := by
      have h1 : s ∈ expand stream durs := List.mem_of_getElem? hx
      unfold expand at h1
      simp only [List.mem_flatMap] at h1
      obtain ⟨⟨x, d⟩, hxd, hrep⟩ := h1
      have := List.eq_of_mem_replicate hrep
      subst this
      exact (List.of_mem_zip hxd).1
    rw [← h, hall s hmem]; simp [hb]

/-! ### for the whole library (`Jb/Proofs/SynthBridge.lean`) -/

/-- **C11 from the voice files.** On a well-formed voice set, appending `set_msd_threshold(i, x)` (any `i`, in range or
    not) to any history leaves the durations and the trajectories of every *other* stream unchanged. -/
theorem library_threshold_touches_own_stream_only {K : Type} [Field K] [LinearOrder K] [IsStrictOrderedRing K] [FloorRing K]
    [Transc K] [Consts K] [MlpgConsts K] [FromFile K] (big : K) (voices : List Hts.ParsedVoice) (iw : IW K)
    (h : Synth.VoicesWF voices iw) (v0 : Hts.ParsedVoice) (hv0 : voices.head? = some v0) (ops : List (CondOp K))
    (f : Condition K → Bool) (hf : Synth.SpeedOnly f) (labels : List (List Char)) (times : List (K × K))
    (halign : (Synth.condOf (K := K) v0 ops).alignment = true → times.length = labels.length) (i : Nat) (x : K) :
    ∃ p p', Synth.params big voices iw ops f labels times = .ok p ∧
      Synth.params big voices iw (ops ++ [.msd i x]) f labels times = .ok p' ∧
      p'.durations = p.durations ∧
      p'.spectrum.length = p.spectrum.length ∧ p'.lf0.length = p.lf0.length ∧ p'.lpf.length = p.lpf.length ∧
      (i ≠ 0 → p'.spectrum = p.spectrum) ∧ (i ≠ 1 → p'.lf0 = p.lf0) ∧ (i ≠ 2 → p'.lpf = p.lpf) :=
  Synth.params_msd_other big voices iw h v0 hv0 ops f hf labels times halign i x

/-- … and likewise for `set_gv_weight(i, x)`. -/
theorem library_gv_weight_touches_own_stream_only {K : Type} [Field K] [LinearOrder K] [IsStrictOrderedRing K] [FloorRing K]
    [Transc K] [Consts K] [MlpgConsts K] [FromFile K] (big : K) (voices : List Hts.ParsedVoice) (iw : IW K)
    (h : Synth.VoicesWF voices iw) (v0 : Hts.ParsedVoice) (hv0 : voices.head? = some v0) (ops : List (CondOp K))
    (f : Condition K → Bool) (hf : Synth.SpeedOnly f) (labels : List (List Char)) (times : List (K × K))
    (halign : (Synth.condOf (K := K) v0 ops).alignment = true → times.length = labels.length) (i : Nat) (x : K) :
    ∃ p p', Synth.params big voices iw ops f labels times = .ok p ∧
      Synth.params big voices iw (ops ++ [.gv i x]) f labels times = .ok p' ∧
      p'.durations = p.durations ∧
      p'.spectrum.length = p.spectrum.length ∧ p'.lf0.length = p.lf0.length ∧ p'.lpf.length = p.lpf.length ∧
      (i ≠ 0 → p'.spectrum = p.spectrum) ∧ (i ≠ 1 → p'.lf0 = p.lf0) ∧ (i ≠ 2 → p'.lpf = p.lpf) :=
  Synth.params_gv_other big voices iw h v0 hv0 ops f hf labels times halign i x

end Jb.C11
