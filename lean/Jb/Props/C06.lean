/-
  C06 — the mel-cepstral synthesis filter realises the model spectrum.  **Partial.**

  Theorems (ordered field): the cepstrum ↔ filter-coefficient maps are mutually inverse for every α
  (so the filter is driven by exactly the model cepstrum); with all-zero coefficients the MLSA cascade
  is the identity in every state; the response scales with `exp(c₀)` at the excitation input.
  Not proved here: the analytic clause — |ln|H(e^{jω})| − Σ c_m cos(m ω̃)| ≤ 0.01 neper — is a bound on
  the Padé(5) approximation error of a concrete rational function; it is decided on every run by the
  DFT of the implementation's pulse response (and the bit-identical model).
-/
import Jb.Proofs.Cepstrum
import Jb.Proofs.MlsaLinear
import Jb.Proofs.Lti

set_option linter.unusedSectionVars false

namespace Jb.C06
open Jb

variable {K : Type} [Field K] [LinearOrder K] [IsStrictOrderedRing K] [Transc K] [Consts K]

theorem cepstrum_roundtrip (alpha : K) (c : List K) : b2mc alpha (mc2b alpha c) = c := b2mc_mc2b alpha c
theorem coefficient_roundtrip (alpha : K) (b : List K) : mc2b alpha (b2mc alpha b) = b := mc2b_b2mc alpha b

/-- zero spectrum ⇒ identity filter (used by C07's observation through the public Vocoder) -/
theorem zero_spectrum_identity (st : MlsaSt K) (x alpha : K) (c : List K) (hc : ∀ y ∈ c, y = 0) :
    (mlsaDf st x alpha c).1 = x := mlsaDf_zero st x alpha c hc

/-- The gain enters as `x · exp(b₀)` at the filter input and nowhere else: shifting `c₀` by `δ` shifts
    `b₀` by `δ` (the other `b` are unchanged) and multiplies the filter input by `exp δ`. -/
theorem gain_shifts_b0 (alpha : K) (c0 δ : K) (rest : List K) :
    mc2b alpha ((c0 + δ) :: rest) = match mc2b alpha (c0 :: rest) with
      | [] => []
      | b0 :: bs => (b0 + δ) :: bs := by
  rw [mc2b_cons alpha (c0 + δ) rest, mc2b_cons alpha c0 rest]
  cases mc2b alpha rest with
  | nil => simp
  | cons b bs => simp; ring

theorem gain_scales_input (hexp : ∀ a b : K, Transc.exp (a + b) = Transc.exp a * Transc.exp b)
    (x b0 δ : K) : x * Transc.exp (b0 + δ) = (x * Transc.exp b0) * Transc.exp δ := by
  rw [hexp]; ring

/-- **The filter is homogeneous in its input**: with frozen coefficients and zero initial state, scaling the
    excitation by `a` scales the whole response by `a` — so, with `gain_scales_input`, the response
    scales with `exp(c₀)`. -/
theorem response_scales (a alpha : K) (c : List K) (nmcp : Nat) (xs : List K) :
    mlsaRun alpha c (MlsaSt.init nmcp) (xs.map (a * ·)) = (mlsaRun alpha c (MlsaSt.init nmcp) xs).map (a * ·) :=
  mlsaRun_smul a alpha c nmcp xs

/-! non-vacuity -/
instance : Transc ℚ := ⟨id, id, id, id, fun x _ => x⟩
instance : Consts ℚ := ⟨10, 3, 1 / 17, 1 / 9, -10000000000, 3, 1 / 10 ^ 100⟩
example : mc2b (1 / 2 : ℚ) [1, 2, 4] = [1, 0, 4] := by
  rw [mc2b_cons, mc2b_cons, mc2b_cons, mc2b_nil]; norm_num

/-- **The pulse response determines the filter.** With frozen coefficients the MLSA filter (Padé cascade as
    coded) is linear and time-invariant: its output on ANY excitation is the convolution of the excitation
    with its response to one pulse — which is the response the check measures on the implementation. -/
theorem response_is_convolution (alpha : K) (c : List K) (nmcp : Nat) (xs : List K) (n : Nat) (hn : n < xs.length) :
    (mlsaRun alpha c (MlsaSt.init nmcp) xs).getD n 0 =
      (Finset.range (n + 1)).sum fun k => (mlsaPulse alpha c nmcp xs.length).getD k 0 * xs.getD (n - k) 0 :=
  mlsaRun_convolution alpha c nmcp xs n hn

/-- superposition (zero initial state) -/
theorem response_additive (alpha : K) (c : List K) (nmcp : Nat) (xs ys : List K) (h : xs.length = ys.length) :
    mlsaRun alpha c (MlsaSt.init nmcp) (List.zipWith (· + ·) xs ys) =
      List.zipWith (· + ·) (mlsaRun alpha c (MlsaSt.init nmcp) xs) (mlsaRun alpha c (MlsaSt.init nmcp) ys) :=
  mlsaRun_add alpha c nmcp xs ys h

end Jb.C06
