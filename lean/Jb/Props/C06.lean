/-
  C06 — the mel-cepstral synthesis filter realises the model spectrum.  **Partial.**

  Theorems (ordered field): the cepstrum ↔ filter-coefficient maps are mutually inverse for every α
  (so the filter is driven by exactly the model cepstrum); with all-zero coefficients the MLSA cascade
  is the identity in every state; the response scales with `exp(c₀)` at the excitation input.
  The transfer function as an identity of the code's arithmetic (frozen coefficients, from rest): the filter is two
  Padé stages in cascade, each stage is exactly `P(F)/P(−F)` of its basic filter (`P` the degree-5 polynomial whose
  coefficients the code carries, `P(w)/P(−w) ≈ exp w`), and gain term plus the two basic filters add up to the warped
  cepstrum polynomial `Σ_m c_m z̃^{-m}` — so `H = exp(b₀)·R(F₁)·R(F₂)` with `b₀ + F₁ + F₂ = Σ c_m z̃^{-m}` for every α.
  Not proved here: the analytic clause — |ln|H(e^{jω})| − Σ c_m cos(m ω̃)| ≤ 0.01 neper — is a bound on
  the Padé(5) approximation error of a concrete rational function; it is decided on every run by the
  DFT of the implementation's pulse response (and the bit-identical model).
-/
import Jb.Proofs.Cepstrum
import Jb.Proofs.MlsaLinear
import Jb.Proofs.Lti
import Jb.Proofs.MlsaExponent

set_option linter.unusedSectionVars false

namespace Jb.C06
open Jb

variable {K : Type} [Field K] [LinearOrder K] [IsStrictOrderedRing K] [Transc K] [Consts K]

theorem cepstrum_roundtrip (alpha : K) (c : List K) : b2mc alpha (mc2b alpha c) = c := b2mc_mc2b alpha c
theorem coefficient_roundtrip (alpha : K) (b : List K) : mc2b alpha (b2mc alpha b) = b := mc2b_b2mc alpha b

/-- zero spectrum ⇒ identity filter (used by C07's observation through the public Vocoder) -/
theorem zero_spectrum_identity (st : MlsaSt K) (x alpha : K) (c : List K) (hc : ∀ y ∈ c, y = 0) :
    (mlsaDf st x alpha c).1 = x := mlsaDf_zero st x alpha c hc

/-- The gain enters as `x · exp(b₀)` at the filter input and nowhere else: shifting `c₀` by `δ` shifts
    `b₀` by `δ` (the other `b` are unchanged) and multiplies the filter input by `exp δ`. -/
theorem gain_shifts_b0 (alpha : K) (c0 δ : K) (rest : List K) :
    mc2b alpha ((c0 + δ) :: rest) = match mc2b alpha (c0 :: rest) with
      | [] => []
      | b0 :: bs => (b0 + δ) :: bs := by
  rw [mc2b_cons alpha (c0 + δ) rest, mc2b_cons alpha c0 rest]
  cases mc2b alpha rest with
  | nil => simp
  | cons b bs => simp; ring

theorem gain_scales_input (hexp : ∀ a b : K, Transc.exp (a + b) = Transc.exp a * Transc.exp b)
    (x b0 δ : K) : x * Transc.exp (b0 + δ) = (x * Transc.exp b0) * Transc.exp δ := by
  rw [hexp]; ring

/-- **The filter is homogeneous in its input**: with frozen coefficients and zero initial state, scaling the
    excitation by `a` scales the whole response by `a` — so, with `gain_scales_input`, the response
    scales with `exp(c₀)`. -/
theorem response_scales (a alpha : K) (c : List K) (nmcp : Nat) (xs : List K) :
    mlsaRun alpha c (MlsaSt.init nmcp) (xs.map (a * ·)) = (mlsaRun alpha c (MlsaSt.init nmcp) xs).map (a * ·) :=
  mlsaRun_smul a alpha c nmcp xs

/-! non-vacuity -/
instance : Transc ℚ := ⟨id, id, id, id, fun x _ => x⟩
instance : Consts ℚ := ⟨10, 3, 1 / 17, 1 / 9, -10000000000, 3, 1 / 10 ^ 100⟩
example : mc2b (1 / 2 : ℚ) [1, 2, 4] = [1, 0, 4] := by
  rw [mc2b_cons, mc2b_cons, mc2b_cons, mc2b_nil]; norm_num

/-- **The pulse response determines the filter.** With frozen coefficients the MLSA filter (Padé cascade as
    coded) is linear and time-invariant: its output on ANY excitation is the convolution of the excitation
    with its response to one pulse — which is the response the check measures on the implementation. -/
theorem response_is_convolution (alpha : K) (c : List K) (nmcp : Nat) (xs : List K) (n : Nat) (hn : n < xs.length) :
    (mlsaRun alpha c (MlsaSt.init nmcp) xs).getD n 0 =
      (Finset.range (n + 1)).sum fun k => (mlsaPulse alpha c nmcp xs.length).getD k 0 * xs.getD (n - k) 0 :=
  mlsaRun_convolution alpha c nmcp xs n hn

/-- superposition (zero initial state) -/
theorem response_additive (alpha : K) (c : List K) (nmcp : Nat) (xs ys : List K) (h : xs.length = ys.length) :
    mlsaRun alpha c (MlsaSt.init nmcp) (List.zipWith (· + ·) xs ys) =
      List.zipWith (· + ·) (mlsaRun alpha c (MlsaSt.init nmcp) xs) (mlsaRun alpha c (MlsaSt.init nmcp) ys) :=
  mlsaRun_add alpha c nmcp xs ys h

/-! ### the transfer function, algebraically (every `α`, every order, every input signal) -/

/-- the MLSA filter is the second Padé stage run on the output of the first -/
theorem filter_is_two_stages (alpha : K) (c : List K) (nmcp : Nat) (xs : List K) :
    mlsaRun alpha c (MlsaSt.init nmcp) xs =
      df2Run alpha c (MlsaSt.init nmcp) (df1Run alpha c (MlsaSt.init nmcp) xs) :=
  mlsaRun_factor alpha c nmcp xs

/-- **stage 1 is `P(F₁)/P(−F₁)`**, `F₁ = c₁·Φ₁`: there is an inner signal `w` (the one the code stores) with
    `P(−F₁) w = x` and `P(F₁) w = y`. -/
theorem stage1_is_pade (alpha : K) (c : List K) (nmcp : Nat) (xs : List K) (n : Nat) (hn : n < xs.length) :
    padeApply (-1) (basic1 alpha c) (df1Inner alpha c (MlsaSt.init nmcp) xs) n = xs.getD n 0 ∧
    padeApply 1 (basic1 alpha c) (df1Inner alpha c (MlsaSt.init nmcp) xs) n =
      (df1Run alpha c (MlsaSt.init nmcp) xs).getD n 0 :=
  df1_pade alpha c nmcp xs n hn

/-- **stage 2 is `P(F₂)/P(−F₂)`**, `F₂ = Σ_{k≥2} c_k Φ_k` (the code's warped FIR on the delayed signal). -/
theorem stage2_is_pade (alpha : K) (c : List K) (nmcp : Nat) (xs : List K) (n : Nat) (hn : n < xs.length) :
    padeApply (-1) (basic2 alpha c nmcp) (df2Inner alpha c (MlsaSt.init nmcp) xs) n = xs.getD n 0 ∧
    padeApply 1 (basic2 alpha c nmcp) (df2Inner alpha c (MlsaSt.init nmcp) xs) n =
      (df2Run alpha c (MlsaSt.init nmcp) xs).getD n 0 :=
  df2_pade alpha c nmcp xs n hn

/-- **the exponent is the model spectrum**: with `b = mc2b α c` the gain term and the two basic filters add up to
    `Σ_m c_m z̃^{-m}`, `z̃⁻¹ = (z⁻¹ − α)/(1 − α z⁻¹)` — on the unit circle `Σ_m c_m cos(m ω̃)` is its real part. -/
theorem exponent_is_model_spectrum (alpha : K) (c us : List K) (hc : 2 ≤ c.length) (n : Nat) (hn : n < us.length) :
    (mc2b alpha c).getD 0 0 * us.getD n 0 + (basic1 alpha (mc2b alpha c) us).getD n 0 +
        (basic2 alpha (mc2b alpha c) c.length us).getD n 0 =
      (Finset.range c.length).sum fun m => c.getD m 0 * (allpassPow alpha m us).getD n 0 :=
  mlsa_exponent alpha c us hc n hn

/-- non-vacuity: a concrete cepstrum, `α = 1/2`, a three-sample signal -/
example : (2 : Nat) ≤ ([1, 2, 4] : List ℚ).length ∧ (1 : Nat) < ([3, 0, 5] : List ℚ).length := by decide

end Jb.C06
