/-
  C01 — synthesis is total and frame-exact on every supported input.

  Theorems about the composed pipeline model (`Jb/Model/Engine.lean`), over an ordered floor field:
    * `synth_length`   — a returned waveform has exactly `fperiod × F` samples, F = Σ state durations;
    * `durations_shape`— one duration ≥ 1 per state of every label (speed path and alignment path), so F ≥ labels × states;
    * `synth_total_two_stream` — a well-formed two-stream configuration (the case that panicked before
      fix 0c7762d) never panics: synthesis returns a waveform. (Three-stream totality differs only in the
      third `mlpgCreate_shape` call and the odd-order check; it is exercised by the correspondence.)
    * `mlpg_shape` — MLPG returns one row of `vector_length` values per frame on well-formed streams;
      the well-formedness includes "the GV switch covers every state", without which the model (and the
      code) panics — `shape_needs_gv_switch` is the machine-checked counterexample.
    * `synth_empty` — no labels ⇒ empty waveform.
  The finiteness clause cannot be a theorem over a field (nothing is ever non-finite there); it is
  decided on every run on the implementation and the bit-identical model.
-/
import Jb.Proofs.Engine
import Jb.Proofs.Total
import Jb.Proofs.SynthTotal
import Jb.Proofs.Supported
import Jb.Proofs.EngineWFb
import Jb.Proofs.VoiceSetCompat

set_option linter.unusedSectionVars false

namespace Jb.C01
open Jb

variable {K : Type} [Field K] [LinearOrder K] [IsStrictOrderedRing K] [FloorRing K]
  [Transc K] [Consts K] [MlpgConsts K]

theorem synth_length (fx : Fix) (c : Condition K) (b : Bool) (inp : EngineIn K) (w : List K)
    (s0 : StreamIn K) (hs0 : inp.streams[0]? = some s0) (hwf : StreamWF s0)
    (h : engineSynthesize fx c b inp = .ok w) :
    ∃ durs, engineDurations c b inp = .ok durs ∧
      (durs.length ≤ s0.stream.length → w.length = c.fperiod * durs.sum) :=
  engineSynthesize_length fx c b inp w s0 hs0 hwf h

/-- Without alignment: one duration per state, each at least one frame. -/
theorem durations_shape_speed (c : Condition K) (b : Bool) (inp : EngineIn K) (h : c.alignment = false) :
    ∃ d, engineDurations c b inp = .ok d ∧ d.length = inp.duration.length ∧ ∀ x ∈ d, 1 ≤ x := by
  obtain ⟨d, hd⟩ := durationCreate_ok inp.duration c.speed b
  refine ⟨d, ?_, ?_⟩
  · unfold engineDurations; simp [h, hd]
  · exact durationCreate_shape inp.duration c.speed b d hd

/-- With alignment: every label keeps all its states (repaired tail handling), each at least one frame. -/
theorem durations_shape_alignment (c : Condition K) (b : Bool) (inp : EngineIn K) (h : c.alignment = true)
    (hn : 0 < inp.nstate) (hlen : inp.duration.length = inp.times.length * inp.nstate) :
    ∃ d, engineDurations c b inp = .ok d ∧ d.length = inp.duration.length ∧ ∀ x ∈ d, 1 ≤ x := by
  obtain ⟨d, hd, hl, hp⟩ := align_keeps_all inp.duration inp.nstate inp.times hn hlen
  exact ⟨d, by unfold engineDurations; simp [h, hd], hl, hp⟩

/-- F ≥ labels × states: a list of `n` durations each ≥ 1 sums to at least `n`. -/
theorem frames_ge_states (d : List Nat) (h : ∀ x ∈ d, 1 ≤ x) : d.length ≤ d.sum := by
  induction d with
  | nil => simp
  | cons x xs ih =>
    have hx := h x (by simp)
    have := ih (fun y hy => h y (by simp [hy]))
    simp only [List.length_cons, List.sum_cons]
    omega

theorem mlpg_shape (gw thr : K) (s : StreamIn K) (durs : List Nat) (hwf : StreamWF s)
    (hd : durs.length ≤ s.stream.length)
    (hgv : ∀ g sw, s.gv = some (g, sw) → durs.length ≤ sw.length) :
    ∃ rows, mlpgCreate gw thr s durs = .ok rows ∧ rows.length = durs.sum ∧
      ∀ r ∈ rows, r.length = s.vectorLength :=
  mlpgCreate_shape_partial gw thr s durs hwf hd hgv

theorem synth_total_two_stream (fx : Fix) (c : Condition K) (inp : EngineIn K)
    (s0 s1 : StreamIn K) (hs0 : inp.streams[0]? = some s0) (hs1 : inp.streams[1]? = some s1)
    (hw0 : StreamWF s0) (hw1 : StreamWF s1) (hv1 : s1.vectorLength = 1)
    (hl0 : s0.stream.length = inp.duration.length) (hl1 : s1.stream.length = inp.duration.length)
    (hgw : 2 ≤ c.gvWeight.length) (hth : 2 ≤ c.msdThreshold.length) (h2 : inp.nstream = 2)
    (halign : c.alignment = false)
    (hg0 : ∀ g sw, s0.gv = some (g, sw) → inp.duration.length ≤ sw.length)
    (hg1 : ∀ g sw, s1.gv = some (g, sw) → inp.duration.length ≤ sw.length) (b : Bool) :
    ∃ w, engineSynthesize fx c b inp = .ok w :=
  engineSynthesize_total_partial fx c inp s0 s1 hs0 hs1 hw0 hw1 hv1 hl0 hl1 hgw hth h2 halign hg0 hg1 b

/-- one vocoder frame is exactly `fperiod` samples, whatever the parameters -/
theorem frame_is_fperiod (fx : Fix) (v : VocoderSt K) (lf0 : K) (sp lpf : List K) :
    (vocoderSynth fx v lf0 sp lpf).1.length = v.fperiod :=
  vocoderSynth_length fx v lf0 sp lpf

/-- **Total and frame-exact, in full generality.** For every well-formed engine input (`EngineWF`: two or three
    streams, every stream with enough Gaussians per state and a GV switch covering every state, log-F0 of
    length 1, low-pass of odd length, one threshold and GV weight per stream; with alignment, `nstate > 0`
    and one time pair per label) synthesis returns — no panic site is reachable — every state lasts at least
    one frame, and the waveform has exactly `frame_period × F` samples. -/
theorem synth_total (fx : Fix) (c : Condition K) (inp : EngineIn K) (h : EngineWF c inp) (b : Bool) :
    ∃ durs w, engineDurations c b inp = .ok durs ∧ durs.length = inp.duration.length ∧ (∀ x ∈ durs, 1 ≤ x) ∧
      engineSynthesize fx c b inp = .ok w ∧ w.length = c.fperiod * durs.sum :=
  engineSynthesize_total fx c inp h b

/-- … hence `F ≥ labels × states`, and no label or state contributes nothing. -/
theorem synth_total_frames (fx : Fix) (c : Condition K) (inp : EngineIn K) (h : EngineWF c inp) (b : Bool) :
    ∃ durs w, engineDurations c b inp = .ok durs ∧ engineSynthesize fx c b inp = .ok w ∧
      c.fperiod * inp.duration.length ≤ w.length := by
  obtain ⟨durs, w, h1, h2, h3, h4, h5⟩ := engineSynthesize_total fx c inp h b
  refine ⟨durs, w, h1, h4, ?_⟩
  rw [h5, ← h2]
  exact Nat.mul_le_mul_left _ (frames_ge_states durs h3)

/-! ### from the voice files: totality of the whole library (`Jb/Model/Synth.lean`)

  The hypothesis of the theorems above (`EngineWF`) speaks about what `Models` hands to the stages. The
  theorems below put tree selection, voice interpolation, the header defaults and the setter history inside:
  the hypothesis `Synth.VoicesWF` is about the *parsed voices and the weight vectors* only (2 or 3 streams,
  log-F0 of length 1, odd low-pass length, ≥ 1 window, every tree walk ends in a PDF of the expected shape,
  one weight per voice). -/

/-- for every well-formed voice set, weights, setter history, label sequence and (with alignment) one time
    pair per label: `Engine::synthesize` returns `frame_period × F` samples, one duration ≥ 1 per state -/
theorem voices_synth_total [FromFile K] (fx : Fix) (big : K) (voices : List Hts.ParsedVoice) (iw : IW K)
    (h : Synth.VoicesWF voices iw) (v0 : Hts.ParsedVoice) (hv0 : voices.head? = some v0) (ops : List (CondOp K))
    (f : Condition K → Bool) (labels : List (List Char)) (times : List (K × K))
    (halign : (Synth.condOf (K := K) v0 ops).alignment = true → times.length = labels.length) :
    ∃ (durs : List Nat) (w : List K), Synth.synthesize fx big voices iw ops f labels times = .ok w ∧
      w.length = (Synth.condOf (K := K) v0 ops).fperiod * durs.sum ∧
      durs.length = labels.length * v0.global.nstates ∧ (∀ d ∈ durs, 1 ≤ d) :=
  Synth.synthesize_total fx big voices iw h v0 hv0 ops f labels times halign

/-- … so `F ≥ labels × states-per-phoneme` -/
theorem voices_synth_frames [FromFile K] (fx : Fix) (big : K) (voices : List Hts.ParsedVoice) (iw : IW K)
    (h : Synth.VoicesWF voices iw) (v0 : Hts.ParsedVoice) (hv0 : voices.head? = some v0) (ops : List (CondOp K))
    (f : Condition K → Bool) (labels : List (List Char)) (times : List (K × K))
    (halign : (Synth.condOf (K := K) v0 ops).alignment = true → times.length = labels.length) :
    ∃ (durs : List Nat) (w : List K), Synth.synthesize fx big voices iw ops f labels times = .ok w ∧
      w.length = (Synth.condOf (K := K) v0 ops).fperiod * durs.sum ∧
      labels.length * v0.global.nstates ≤ durs.sum ∧
      (Synth.condOf (K := K) v0 ops).fperiod * (labels.length * v0.global.nstates) ≤ w.length :=
  Synth.synthesize_frames_ge fx big voices iw h v0 hv0 ops f labels times halign

/-- an empty label list yields an empty waveform -/
theorem voices_synth_empty [FromFile K] (fx : Fix) (big : K) (voices : List Hts.ParsedVoice) (iw : IW K)
    (h : Synth.VoicesWF voices iw) (ops : List (CondOp K)) (f : Condition K → Bool) :
    Synth.synthesize fx big voices iw ops f [] [] = .ok [] :=
  Synth.synthesize_empty fx big voices iw h ops f

/-- the hypotheses are satisfiable: a concrete one-state, two-stream voice (MSD log-F0 with GV) -/
theorem voices_wf_nonvacuous [FromFile K] : Synth.VoicesWF (K := K) [Synth.Tiny.voice] Synth.Tiny.weights :=
  Synth.Tiny.voicesWF

/-- the shape clause is needed and the loader does not establish it: a voice whose stream lists more
    windows (`STREAM_WIN`) than its PDFs were cut for (`NUM_WINDOWS`) loads, and synthesis of any label
    reaches the index panic of `MlpgAdjust::create` (machine-checked on the model; replayed on the code in
    DESIGN.md §9.8). Such a file is outside "supported voice configuration". -/
theorem window_count_mismatch_panics [FromFile K] (fx : Fix) (big : K) (f : Condition K → Bool) (l : List Char) :
    Synth.synthesize fx big [Synth.Tiny.badVoice] (Synth.Tiny.weights (K := K)) [] f [l] []
      = .panic "mlpg_adjust/mod.rs:curr_stream[m]" :=
  Synth.Tiny.badVoice_panics fx big f l

/-! ### from the bytes: the whole library, one theorem

  `parseVoice` is the reader (C18: total, never panics), `supportedVoice` / `compatibleVoice` are *computable* checks
  (`Jb/Model/Supported.lean`; the driver runs them on the voice files of every end-to-end case and records the answer in
  the evidence classes), and the conclusion is C01 for every label sequence, setter history and weight assignment. -/

/-- **C01 from the voice files.** If every voice of the set was accepted by the reader, passes the computable
    `supportedVoice` check (2 or 3 streams, log-F0 of length 1, odd low-pass length, 1 ≤ windows listed ≤ windows
    announced, for every state a tree whose rows are non-empty, have distinct ids, refer forward only and name PDF ids that
    exist) and is compatible with the first, and there is one interpolation weight per voice, then synthesis of *any* labels
    under *any* setter history returns exactly `frame_period × F` samples with every state ≥ 1 frame, `F ≥ labels × states`. -/
theorem bytes_to_waveform_total [FromFile K] (fx : Fix) (big : K) (voices : List Hts.ParsedVoice) (v0 : Hts.ParsedVoice)
    (hv0 : voices.head? = some v0) (iw : IW K)
    (hall : ∀ v ∈ voices, (∃ bytes, Hts.parseVoice true bytes = .ok v) ∧ Hts.supportedVoice v = true ∧
      Hts.compatibleVoice v0 v = true)
    (hw : Synth.WeightsWF voices.length v0.global.nstreams iw) (ops : List (CondOp K)) (f : Condition K → Bool)
    (labels : List (List Char)) (times : List (K × K))
    (halign : (Synth.condOf (K := K) v0 ops).alignment = true → times.length = labels.length) :
    ∃ (durs : List Nat) (w : List K), Synth.synthesize fx big voices iw ops f labels times = .ok w ∧
      w.length = (Synth.condOf (K := K) v0 ops).fperiod * durs.sum ∧
      labels.length * v0.global.nstates ≤ durs.sum ∧ (∀ d ∈ durs, 1 ≤ d) :=
  Synth.bytes_synth_total fx big voices v0 hv0 iw hall hw ops f labels times halign

/-- non-vacuity: a complete byte image the reader accepts (kernel evaluation) and that passes `supportedVoice` -/
theorem supported_example_accepted :
    Hts.parseVoice true Hts.SupportedEx.okBytes = .ok Hts.SupportedEx.okVoice ∧
      Hts.supportedVoice Hts.SupportedEx.okVoice = true :=
  ⟨Hts.SupportedEx.ok_accepted, Hts.SupportedEx.ok_supported⟩

/-- the hypothesis `EngineWF` of `synth_total` has a computable form (`engineWFb`, `Jb/Model/EngineWFb.lean`): when the check
    passes, synthesis is total and frame-exact. The driver evaluates the check on the stage inputs of every pipeline case
    (class tag `wf` / `NOT-WF` in the evidence), so that the cases the correspondence runs are measured to lie inside the
    theorem's hypothesis class. -/
theorem wf_check_sound (fx : Fix) (c : Condition K) (inp : EngineIn K) (h : engineWFb c inp = true) (b : Bool) :
    ∃ durs w, engineDurations c b inp = .ok durs ∧ durs.length = inp.duration.length ∧ (∀ x ∈ durs, 1 ≤ x) ∧
      engineSynthesize fx c b inp = .ok w ∧ w.length = c.fperiod * durs.sum :=
  engineWFb_total fx c inp h b

/-- **C01 from the voice files, with the library's own compatibility check.** As `bytes_to_waveform_total`, the
    `compatibleVoice` hypothesis replaced by "the model of `VoiceSet::new` (C19: `voiceSetNew` on the voices' metadata)
    accepted the list": accepted by the reader ∧ supported ∧ combined by `VoiceSet::new` ⇒ total and frame-exact. -/
theorem bytes_to_waveform_total_via_voice_set [FromFile K] (fx : Fix) (big : K) (voices : List Hts.ParsedVoice)
    (v0 : Hts.ParsedVoice) (hv0 : voices.head? = some v0) (iw : IW K)
    (hall : ∀ v ∈ voices, (∃ bytes, Hts.parseVoice true bytes = .ok v) ∧ Hts.supportedVoice v = true)
    (hvs : voiceSetNew (voices.map Hts.metaOf) = Except.ok ())
    (hw : Synth.WeightsWF voices.length v0.global.nstreams iw) (ops : List (CondOp K)) (f : Condition K → Bool)
    (labels : List (List Char)) (times : List (K × K))
    (halign : (Synth.condOf (K := K) v0 ops).alignment = true → times.length = labels.length) :
    ∃ (durs : List Nat) (w : List K), Synth.synthesize fx big voices iw ops f labels times = .ok w ∧
      w.length = (Synth.condOf (K := K) v0 ops).fperiod * durs.sum ∧
      labels.length * v0.global.nstates ≤ durs.sum ∧ (∀ d ∈ durs, 1 ≤ d) :=
  Synth.bytes_synth_total fx big voices v0 hv0 iw
    (fun v hv => ⟨(hall v hv).1, (hall v hv).2, Hts.voiceSetNew_compatible voices v0 hv0 hvs v hv⟩)
    hw ops f labels times halign

end Jb.C01
