/-
  C18 — a malformed voice file is an error, not a crash.

  The reader model mirrors every guard of the loader: each slice taken from a header range, each node /
  question reference, each data-derived product and the digit accumulation is a site that returns
  `err` in the repaired loader (`guarded = true`) and `panic` in the pinned commit (`guarded = false`).
  Theorems: for **every** byte sequence the guarded reader returns a voice or an error — there is no
  panic outcome; the reader is a total function (structural / fuelled recursion accepted by Lean) whose
  loops consume input; and the pinned commit's sites are witnessed as panics of the unguarded model.
  Size bounds (`Jb/Proofs/HtsBound.lean`): whatever the header claims, a voice the guarded reader accepts has no more
  streams, questions, trees, tree rows, PDF words, windows or window coefficients than the file has bytes — the reader
  cannot be made to build (allocate) more than it was given (the pinned commit lacked exactly this: F9, `NUM_STREAMS`).
  Hang and unbounded allocation of the *real binary* are runtime observations (address-space and
  wall-clock limits around the fault enumeration) — **partial** in that sense.
-/
import Jb.Proofs.Hts
import Jb.Proofs.HtsBound
import Jb.Proofs.ParseShape

set_option linter.unusedSectionVars false

namespace Jb.C18
open Jb Jb.Hts

/-- **No panic, for all inputs.** -/
theorem parse_no_panic (bytes : List Nat) : ∀ s, parseVoice true bytes ≠ .panic s :=
  parseVoice_no_panic bytes

/-- hence: a voice or an error -/
theorem voice_or_error (bytes : List Nat) :
    (∃ v, parseVoice true bytes = .ok v) ∨ (∃ e, parseVoice true bytes = .err e) := by
  cases h : parseVoice true bytes with
  | ok v => exact Or.inl ⟨v, rfl⟩
  | err e => exact Or.inr ⟨e, rfl⟩
  | panic s => exact absurd h (parseVoice_no_panic bytes s)

/-- the pinned commit's panic sites, as statements about the unguarded model -/
theorem pinned_inverted_range : ∃ s, sliceIncl false "parser/mod.rs" [1, 2, 3] (5, 2) = .panic s := pinned_slice_panics
theorem pinned_truncated_file : ∃ s, sliceIncl false "parser/mod.rs" [1, 2, 3] (1, 7) = .panic s := pinned_truncated_panics
theorem pinned_unknown_question :
    ∃ s, convertTree false [] ⟨2, [⟨0, "Q", .pdf 1, .pdf 2⟩]⟩ = .panic s := pinned_unknown_question_panics
theorem pinned_lone_node_child :
    ∃ s, convertTree false [] ⟨2, [⟨0, "", .node (-3), .node (-3)⟩]⟩ = .panic s := pinned_lone_node_child_panics

/-! ### what is loaded is bounded by what was read -/

/-- the declared number of streams is the number of stream models, and it is at most the file size -/
theorem streams_bounded_by_file (bytes : List Nat) (v : ParsedVoice) (h : parseVoice true bytes = .ok v) :
    v.global.nstreams = v.streams.length ∧ v.streams.length ≤ bytes.length :=
  nstreams_le_size bytes v h

/-- every model of a loaded voice (duration, each stream, each GV model): questions, trees, tree rows and four times the
    number of 32-bit PDF words are each at most the file size -/
theorem models_bounded_by_file (bytes : List Nat) (v : ParsedVoice) (h : parseVoice true bytes = .ok v)
    (m : FileModel) (hm : m = v.duration ∨ (∃ s ∈ v.streams, m = s.model ∨ s.gv = some m)) :
    m.questions.length ≤ bytes.length ∧ m.trees.length ≤ bytes.length ∧ m.rowCount ≤ bytes.length ∧
    4 * m.words ≤ bytes.length :=
  model_le_size bytes v h m hm

/-- windows of every stream: their number and the length of each -/
theorem windows_bounded_by_file (bytes : List Nat) (v : ParsedVoice) (h : parseVoice true bytes = .ok v)
    (s : ParsedStream) (hs : s ∈ v.streams) :
    s.windows.length ≤ bytes.length ∧ ∀ w ∈ s.windows, w.length ≤ bytes.length :=
  windows_le_size bytes v h s hs

/-- **what acceptance guarantees** (`Jb/Proofs/ParseShape.lean`): a voice the guarded reader returns has one parsed stream
    per announced stream (at least one); every PDF of the duration model has `NUM_STATES` means and variances; every PDF
    of a stream model has `VECTOR_LENGTH × NUM_WINDOWS` means and variances and a voicing weight iff the stream is MSD;
    a stream has a GV model iff `USE_GV`, with `VECTOR_LENGTH` entries per PDF; every model has one PDF list per tree and
    every reference / question name of every tree resolves — so none of the `unwrap`s of `convert_tree` and none of the
    `from_linear` index computations can fail on an accepted file. -/
theorem accepted_voice_shape (bytes : List Nat) (v : ParsedVoice) (h : parseVoice true bytes = .ok v) :
    (v.streams.length = v.global.nstreams ∧ 0 < v.streams.length) ∧
    ((∀ ps ∈ v.duration.pdfs, ∀ p ∈ ps,
        p.means.length = v.global.nstates ∧ p.varis.length = v.global.nstates ∧ p.msd = none) ∧
      v.duration.pdfs.length = v.duration.trees.length ∧
      ∀ t ∈ v.duration.trees, ∃ r, convertTree true v.duration.questions t = .ok r) ∧
    (∀ s ∈ v.streams,
      (∀ ps ∈ s.model.pdfs, ∀ p ∈ ps,
        p.means.length = s.info.veclen * s.info.nwin ∧ p.varis.length = s.info.veclen * s.info.nwin ∧
        p.msd.isSome = s.info.isMsd) ∧
      s.model.pdfs.length = s.model.trees.length ∧
      ∀ t ∈ s.model.trees, ∃ r, convertTree true s.model.questions t = .ok r) ∧
    (∀ s ∈ v.streams,
      (s.info.useGv = true → ∃ g, s.gv = some g ∧
        (∀ ps ∈ g.pdfs, ∀ p ∈ ps,
          p.means.length = s.info.veclen ∧ p.varis.length = s.info.veclen ∧ p.msd = none) ∧
        g.pdfs.length = g.trees.length ∧
        ∀ t ∈ g.trees, ∃ r, convertTree true g.questions t = .ok r) ∧
      (s.info.useGv = false → s.gv = none)) :=
  parseVoice_shape bytes v h

/-- the hypothesis is satisfiable — and acceptance is *not* well-formedness: one complete file image the reader accepts
    (checked by kernel evaluation) announces three windows and lists one, has a leaf whose PDF id exceeds the PDF count,
    a cyclic tree, a tree without rows and a tree for a state the voice does not have. None of this is a crash of the
    loader (C18 holds); it is why C01 quantifies over *supported* voices (`Synth.VoicesWF`). -/
theorem accepted_is_not_wellformed :
    parseVoice true ParseShapeEx.exBytes = .ok ParseShapeEx.exVoice := ParseShapeEx.ex_accepted

end Jb.C18
