/-
  C18 — a malformed voice file is an error, not a crash.

  The reader model mirrors every guard of the loader: each slice taken from a header range, each node /
  question reference, each data-derived product and the digit accumulation is a site that returns
  `err` in the repaired loader (`guarded = true`) and `panic` in the pinned commit (`guarded = false`).
  Theorems: for **every** byte sequence the guarded reader returns a voice or an error — there is no
  panic outcome; the reader is a total function (structural / fuelled recursion accepted by Lean) whose
  loops consume input; and the pinned commit's sites are witnessed as panics of the unguarded model.
  Hang and unbounded allocation of the *real binary* are runtime observations (address-space and
  wall-clock limits around the fault enumeration) — **partial** in that sense.
-/
import Jb.Proofs.Hts

set_option linter.unusedSectionVars false

namespace Jb.C18
open Jb Jb.Hts

/-- **No panic, for all inputs.** -/
theorem parse_no_panic (bytes : List Nat) : ∀ s, parseVoice true bytes ≠ .panic s :=
  parseVoice_no_panic bytes

/-- hence: a voice or an error -/
theorem voice_or_error (bytes : List Nat) :
    (∃ v, parseVoice true bytes = .ok v) ∨ (∃ e, parseVoice true bytes = .err e) := by
  cases h : parseVoice true bytes with
  | ok v => exact Or.inl ⟨v, rfl⟩
  | err e => exact Or.inr ⟨e, rfl⟩
  | panic s => exact absurd h (parseVoice_no_panic bytes s)

/-- the pinned commit's panic sites, as statements about the unguarded model -/
theorem pinned_inverted_range : ∃ s, sliceIncl false "parser/mod.rs" [1, 2, 3] (5, 2) = .panic s := pinned_slice_panics
theorem pinned_truncated_file : ∃ s, sliceIncl false "parser/mod.rs" [1, 2, 3] (1, 7) = .panic s := pinned_truncated_panics
theorem pinned_unknown_question :
    ∃ s, convertTree false [] ⟨2, [⟨0, "Q", .pdf 1, .pdf 2⟩]⟩ = .panic s := pinned_unknown_question_panics
theorem pinned_lone_node_child :
    ∃ s, convertTree false [] ⟨2, [⟨0, "", .node (-3), .node (-3)⟩]⟩ = .panic s := pinned_lone_node_child_panics

end Jb.C18
