/-
  C19 — voice sets and interpolation weights are validated.
  Model: `Jb/Model/Weights.lean` (`voiceSetNew`, `weightsNew`, `IW.set*`, `applyIWHistory`).
-/
import Jb.Proofs.Weights
import Jb.Proofs.SynthBridge2

set_option linter.unusedSectionVars false

namespace Jb.C19
open Jb

variable {K : Type} [Field K] [LinearOrder K] [IsStrictOrderedRing K]
variable {G S : Type} [DecidableEq G] [DecidableEq S]

/-- Voices can be combined iff the list is non-empty and every voice has the first one's global and
    per-stream metadata. -/
theorem new_ok_iff (vs : List (G × List S)) :
    voiceSetNew vs = .ok () ↔ ∃ f rest, vs = f :: rest ∧ ∀ v ∈ rest, v = f := by
  cases vs with
  | nil =>
    constructor
    · intro e; cases e
    · rintro ⟨f, rest, e, _⟩; cases e
  | cons first rest =>
    rw [voiceSetNew_cons_ok_iff]
    constructor
    · intro h; exact ⟨first, rest, rfl, h⟩
    · rintro ⟨f, r, e, h⟩
      cases e
      exact h

theorem new_empty : voiceSetNew ([] : List (G × List S)) = .error .emptyVoice := rfl

/-- every failure on a non-empty list is the metadata error -/
theorem new_mismatch (f : G × List S) (rest : List (G × List S)) (h : ∃ v ∈ rest, v ≠ f) :
    voiceSetNew (f :: rest) = .error .metadataError := by
  apply voiceSetNew_cons_bad
  intro hall
  obtain ⟨v, hv, hne⟩ := h
  exact hne (hall v hv)

/-- A weight update is accepted iff the weights sum to 1 (within `eps`) and there is one per voice. -/
theorem set_duration_ok_iff (eps : K) (iw : IW K) (w : List K) :
    (∃ s, iw.setDuration eps w = .ok s) ↔ (|w.sum - 1| ≤ eps ∧ w.length = iw.nvoices) := by
  constructor
  · rintro ⟨s, hs⟩
    exact ((setDuration_ok_iff' eps iw s w).mp hs).2
  · intro h
    exact ⟨_, (setDuration_ok_iff' eps iw _ w).mpr ⟨rfl, h⟩⟩

theorem set_parameter_ok_iff (eps : K) (iw : IW K) (i : Nat) (w : List K) (hi : i < iw.parameter.length) :
    (∃ s, iw.setParameter eps i w = .ok s) ↔ (|w.sum - 1| ≤ eps ∧ w.length = iw.nvoices) := by
  constructor
  · rintro ⟨s, hs⟩
    exact ((setParameter_ok_iff' eps iw s i w).mp hs).2.2
  · intro h
    exact ⟨_, (setParameter_ok_iff' eps iw _ i w).mpr ⟨rfl, hi, h⟩⟩

theorem set_gv_ok_iff (eps : K) (iw : IW K) (i : Nat) (w : List K) (hi : i < iw.gv.length) :
    (∃ s, iw.setGv eps i w = .ok s) ↔ (|w.sum - 1| ≤ eps ∧ w.length = iw.nvoices) := by
  constructor
  · rintro ⟨s, hs⟩
    exact ((setGv_ok_iff' eps iw s i w).mp hs).2.2
  · intro h
    exact ⟨_, (setGv_ok_iff' eps iw _ i w).mpr ⟨rfl, hi, h⟩⟩

/-- the sum is checked before the count: a bad sum is reported even when the count is wrong too -/
theorem sum_error_first (eps : K) (iw : IW K) (op : IWOp K) (w : List K)
    (hw : w = match op with | .dur w => w | .par _ w => w | .gv _ w => w)
    (hs : ¬ |w.sum - 1| ≤ eps) : IWOp.apply eps iw op = .err .invalidSum := by
  cases op with
  | dur w0 =>
    subst hw
    simp only [IWOp.apply, IW.setDuration, validate_bad_sum eps iw _ hs]
  | par i w0 =>
    subst hw
    simp only [IWOp.apply, IW.setParameter, validate_bad_sum eps iw _ hs]
  | gv i w0 =>
    subst hw
    simp only [IWOp.apply, IW.setGv, validate_bad_sum eps iw _ hs]

/-- An accepted update stores exactly the given weights in the addressed vector … -/
theorem accepted_stores (eps : K) (iw s : IW K) (op : IWOp K) (ns : Nat) (hwf : iw.WF ns)
    (h : IWOp.apply eps iw op = .ok s) :
    s.select op.target = (match op with | .dur w => w | .par _ w => w | .gv _ w => w) ∧
    ∀ q, q ≠ op.target → s.select q = iw.select q := by
  have _ := hwf
  exact apply_ok_select eps iw s op h

/-- … and a rejected update leaves every weight vector as it was (so the previously effective weights
    stay in force): in any history, dropping the rejected updates changes nothing. -/
theorem rejected_is_noop (eps : K) (iw : IW K) (ops₁ ops₂ : List (IWOp K)) (op : IWOp K)
    (h : ∀ s, IWOp.apply eps (applyIWHistory eps iw ops₁) op ≠ .ok s) :
    applyIWHistory eps iw (ops₁ ++ op :: ops₂) = applyIWHistory eps iw (ops₁ ++ ops₂) := by
  rw [applyIWHistory_append, applyIWHistory_append, applyIWHistory_cons]
  cases hr : IWOp.apply eps (applyIWHistory eps iw ops₁) op with
  | ok s' => exact absurd hr (h s')
  | err e => rfl
  | panic m => rfl

/-- Every weight vector keeps one entry per voice through any history (so the zip in the weighted
    average never truncates), starting from the default equal weights. -/
theorem wf_new (nv ns : Nat) : (IW.new nv ns : IW K).WF ns := by
  refine ⟨?_, ?_, ?_, ?_, ?_⟩
  · simp [IW.new]
  · simp [IW.new]
  · simp [IW.new]
  · intro l hl
    simp only [IW.new] at hl ⊢
    rw [List.eq_of_mem_replicate hl]
    simp
  · intro l hl
    simp only [IW.new] at hl ⊢
    rw [List.eq_of_mem_replicate hl]
    simp

theorem wf_history (eps : K) (iw : IW K) (ns : Nat) (h : iw.WF ns) (ops : List (IWOp K)) :
    (applyIWHistory eps iw ops).WF ns := by
  induction ops generalizing iw with
  | nil => exact h
  | cons op ops ih =>
    rw [applyIWHistory_cons]
    apply ih
    cases hr : IWOp.apply eps iw op with
    | ok s' => exact apply_ok_wf eps iw s' op ns h hr
    | err e => exact h
    | panic m => exact h

/-- the default weights are the average and are themselves valid -/
theorem default_average (nv ns : Nat) (hnv : 0 < nv) :
    (IW.new nv ns : IW K).duration = List.replicate nv (1 / (nv : K)) ∧
    (List.replicate nv (1 / (nv : K))).sum = 1 := by
  refine ⟨rfl, ?_⟩
  rw [sum_replicate_eq]
  have : (0 : K) < (nv : K) := Nat.cast_pos.mpr hnv
  field_simp

/-! non-vacuity -/
example : ∃ s, (IW.new 2 3 : IW ℚ).setParameter 0 1 [3 / 4, 1 / 4] = .ok s := by
  refine ⟨_, (setParameter_ok_iff' _ _ _ _ _).mpr ⟨rfl, ?_, ?_, ?_⟩⟩
  · simp [IW.new]
  · norm_num
  · rfl

example : (IW.new 2 3 : IW ℚ).setParameter 0 1 [3 / 4, 1 / 2] = .err .invalidSum := by
  have h : ¬ |([3 / 4, 1 / 2] : List ℚ).sum - 1| ≤ 0 := by norm_num
  simp only [IW.setParameter, validate_bad_sum _ _ _ h]

/-! ### for the whole library (`Jb/Proofs/SynthBridge2.lean`) -/

/-- **C19 from the voice files.** A rejected interpolation-weight update anywhere in a history of weight updates leaves
    what `Engine::synthesize` returns unchanged — for every voice set, setter history, labels, every outcome. -/
theorem library_rejected_update_is_noop {K : Type} [Field K] [LinearOrder K] [IsStrictOrderedRing K] [FloorRing K]
    [Transc K] [Consts K] [MlpgConsts K] [FromFile K] (fx : Fix) (big : K)
    (voices : List Hts.ParsedVoice) (eps : K) (iw₀ : IW K) (wops₁ wops₂ : List (IWOp K)) (op : IWOp K)
    (ops : List (CondOp K)) (f : Condition K → Bool) (labels : List (List Char)) (times : List (K × K))
    (h : ∀ s, IWOp.apply eps (applyIWHistory eps iw₀ wops₁) op ≠ .ok s) :
    Synth.synthesize fx big voices (applyIWHistory eps iw₀ (wops₁ ++ op :: wops₂)) ops f labels times =
      Synth.synthesize fx big voices (applyIWHistory eps iw₀ (wops₁ ++ wops₂)) ops f labels times :=
  Synth.synthesize_rejected_update fx big voices eps iw₀ wops₁ wops₂ op ops f labels times h

end Jb.C19
