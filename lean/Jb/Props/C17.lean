/-
  C17 — all label input forms agree; bad label text is an error.

  Model: `Jb/Model/Label.lean` (`splitn3`, `loadLine`, `loadLines`) with `str::parse::<f64>` and
  `jlabel::Label::from_str` as parameters, and `engineDurations` for the use of time stamps.
-/
import Jb.Model.Label
import Jb.Model.Engine
import Mathlib.Tactic.Linarith
import Jb.Proofs.SynthBridge2

set_option linter.unusedSectionVars false

namespace Jb.C17
open Jb

variable {α L : Type} [Mul α] [Neg α] [OfNat α 1]

/-- `splitn(3, ' ')` always yields one, two or three pieces: the `expect` in the code is unreachable. -/
theorem splitn3_pieces (line : List Nat) :
    (∃ a, splitn3 line = [a]) ∨ (∃ a b, splitn3 line = [a, b]) ∨ (∃ a b c, splitn3 line = [a, b, c]) := by
  unfold splitn3
  rcases h1 : splitFirst line with ⟨a, _ | rest⟩
  · exact Or.inl ⟨a, by simp⟩
  · rcases h2 : splitFirst rest with ⟨b, _ | rest2⟩
    · exact Or.inr (Or.inl ⟨a, b, by simp [h2]⟩)
    · exact Or.inr (Or.inr ⟨a, b, rest2, by simp [h2]⟩)

/-- Loading is a total function into `ok | error`: there is no panic outcome at all (the result type
    is `Except`), whatever the two external parsers answer. -/
theorem load_total (parseF : List Nat → Option α) (parseL : List Nat → Option L) (rate : α)
    (lines : List (List Nat)) :
    (∃ xs, loadLines parseF parseL rate lines = .ok xs) ∨ (∃ e, loadLines parseF parseL rate lines = .error e) := by
  cases h : loadLines parseF parseL rate lines with
  | ok xs => exact Or.inl ⟨xs, rfl⟩
  | error e => exact Or.inr ⟨e, rfl⟩

/-- Blank lines are ignored, wherever they are. -/
theorem blank_line_ignored (parseF : List Nat → Option α) (parseL : List Nat → Option L) (rate : α)
    (pre post : List (List Nat)) :
    loadLines parseF parseL rate (pre ++ [] :: post) = loadLines parseF parseL rate (pre ++ post) := by
  induction pre with
  | nil => simp [loadLines, loadLine, splitn3, splitFirst]
  | cons l ls ih => simp only [List.cons_append, loadLines, ih]

/-- The error cases of one line, in the code's order. -/
theorem line_one_token (parseF : List Nat → Option α) (parseL : List Nat → Option L) (rate : α)
    (line first : List Nat) (h : splitn3 line = [first]) (hne : first ≠ []) :
    loadLine parseF parseL rate line =
      match parseL first with | some l => .ok (some (l, (-1, -1))) | none => .error .jlabelParse := by
  unfold loadLine; rw [h]
  cases first with
  | nil => exact absurd rfl hne
  | cons c cs => cases hp : parseL (c :: cs) <;> simp [hp]

theorem line_two_tokens (parseF : List Nat → Option α) (parseL : List Nat → Option L) (rate : α)
    (line a b : List Nat) (h : splitn3 line = [a, b]) :
    loadLine parseF parseL rate line = .error .missingLabel := by
  unfold loadLine; rw [h]

theorem line_three_tokens (parseF : List Nat → Option α) (parseL : List Nat → Option L) (rate : α)
    (line a b c : List Nat) (h : splitn3 line = [a, b, c]) :
    loadLine parseF parseL rate line =
      match parseF a with
      | none => .error .floatParse
      | some s => match parseF b with
        | none => .error .floatParse
        | some e => match parseL c with
          | none => .error .jlabelParse
          | some l => .ok (some (l, (s * rate, e * rate))) := by
  unfold loadLine; rw [h]
  cases ha : parseF a <;> cases hb : parseF b <;> cases hc : parseL c <;> simp [ha, hb, hc]

/-- a line without a space is one token -/
theorem no_space_one_token (line : List Nat) (h : ∀ c ∈ line, c ≠ 32) : splitn3 line = [line] := by
  have key : ∀ l : List Nat, (∀ c ∈ l, c ≠ 32) → splitFirst l = (l, none) := by
    intro l
    induction l with
    | nil => intro _; rfl
    | cons c cs ih =>
      intro hl
      have hc : c ≠ 32 := hl c (by simp)
      have := ih (fun x hx => hl x (by simp [hx]))
      simp [splitFirst, hc, this]
  unfold splitn3; rw [key line h]

/-- **Forms agree.** Label strings without time stamps load as the parsed labels with every time
    unknown — which is what the already-parsed-labels form (`Vec<Label>`) produces. -/
theorem strings_eq_parsed (parseF : List Nat → Option α) (parseL : List Nat → Option L) (rate : α)
    (lines : List (List Nat)) (labels : List L)
    (hsp : ∀ l ∈ lines, (∀ c ∈ l, c ≠ 32) ∧ l ≠ [])
    (hparse : lines.map parseL = labels.map some) :
    loadLines parseF parseL rate lines = .ok (labels.map fun l => (l, ((-1 : α), (-1 : α)))) := by
  induction lines generalizing labels with
  | nil =>
    cases labels with
    | nil => rfl
    | cons _ _ => simp at hparse
  | cons l ls ih =>
    cases labels with
    | nil => simp at hparse
    | cons lab labs =>
      simp only [List.map_cons, List.cons.injEq] at hparse
      have hl := hsp l (by simp)
      have h1 := no_space_one_token l hl.1
      have := line_one_token parseF parseL rate l l h1 hl.2
      rw [hparse.1] at this
      simp only [loadLines, this]
      rw [ih labs (fun x hx => hsp x (by simp [hx])) hparse.2]
      rfl

/-- **Time stamps have no effect unless alignment is enabled.** -/
theorem times_unused_without_alignment {K : Type} [Add K] [Sub K] [Mul K] [Div K] [Neg K] [OfNat K 0] [OfNat K 1]
    [NatCast K] [LT K] [DecidableLT K] [LE K] [DecidableLE K] [RoundNat K]
    (c : Condition K) (b : Bool) (inp : EngineIn K) (times' : List (K × K)) (h : c.alignment = false) :
    engineDurations c b { inp with times := times' } = engineDurations c b inp := by
  unfold engineDurations; simp [h]

/-! non-vacuity: three lines — a timed label, a blank line, a plain label — over a toy label type -/
example : loadLines (α := Int) (L := Nat)
    (fun t => if t = [49] then some 1 else if t = [50] then some 2 else none)
    (fun t => if t = [97] then some 7 else none) 10
    [[49, 32, 50, 32, 97], [], [97]] = .ok [(7, (10, 20)), (7, (-1, -1))] := by
  decide

example : loadLines (α := Int) (L := Nat) (fun _ => some 1) (fun _ => some 7) 10 [[49, 32, 50]] = .error .missingLabel := by
  decide

/-! ### for the whole library (`Jb/Proofs/SynthBridge2.lean`) -/

/-- **C17 from the voice files: blank lines do not matter.** Loading label lines, filling the time gaps and synthesizing
    gives the same outcome with all blank lines removed — for every voice set, weights, setter history, float / label
    parsers and rate. -/
theorem library_blank_lines_ignored {K : Type} [Field K] [LinearOrder K] [IsStrictOrderedRing K] [FloorRing K]
    [Transc K] [Consts K] [MlpgConsts K] [FromFile K] (fx : Fix) (big : K)
    (voices : List Hts.ParsedVoice) (iw : IW K) (ops : List (CondOp K)) (f : Condition K → Bool)
    (parseF : List Nat → Option K) (parseL : List Nat → Option (List Char)) (rate : K) (lines : List (List Nat)) :
    Synth.synthesizeLines fx big voices iw ops f parseF parseL rate (lines.filter (· ≠ [])) =
      Synth.synthesizeLines fx big voices iw ops f parseF parseL rate lines :=
  Synth.synthesizeLines_filter_blank fx big voices iw ops f parseF parseL rate lines

end Jb.C17
