/-
  C04 — a loaded voice is exactly what the file says.

  Theorems about the voice-file model: wildcard matching is the declarative `Matches` relation
  (`*` any string, `?` any one character); a question holds iff one of its patterns matches; a
  single-leaf tree selects its PDF for every label; the index form the loader builds (`convert_tree`,
  walked by `search_node`) returns exactly what walking the file's own tree by node id returns — "no" to
  the first child, "yes" to the second — on every well-formed tree; `from_linear` lays out means |
  variances | voicing weight; the engine defaults are the header's values (C20 `fresh_defaults`).
  The byte-level grammar of the reader is tied to the loader by parsing the same files in both and
  comparing metadata, options, windows, and — for every label and state — tree index, PDF index and every
  float32 entry bit for bit (widening f32→f64 is exact in IEEE and is done by the driver).
-/
import Jb.Proofs.Hts
import Jb.Props.C20
import Jb.Proofs.ParseShape

set_option linter.unusedSectionVars false

namespace Jb.C04
open Jb Jb.Hts

theorem glob_is_matches (p s : List Char) : glob p s = true ↔ Matches p s := glob_correct p s

theorem question_holds_iff (pats : List (List Char)) (label : List Char) :
    questionTest pats label = true ↔ ∃ p ∈ pats, Matches p label := questionTest_iff pats label

theorem single_leaf_tree (qs : Questions) (st : Nat) (id : Int) (q : String) (k : Nat) (label : List Char) :
    evalTree qs ⟨st, [⟨id, q, .pdf k, .pdf k⟩]⟩ label = some k := single_leaf qs st id q k label

theorem index_form_refines_file_tree (qs : Questions) (t : FileTree) (st : Nat) (nodes : List TNode)
    (hwf : TreeWF t) (hne : t.rows ≠ [])
    (hnot : ¬ (t.rows.length = 1 ∧ ∃ r, t.rows = [r] ∧ r.yes = r.no))
    (hc : convertTree true qs t = .ok (st, nodes)) (label : List Char) :
    searchNode nodes label (t.rows.length + 2) 0 = evalTree qs t label ∧
    ∃ k, evalTree qs t label = some k :=
  search_refines_eval qs t st nodes hwf hne hnot hc label

theorem pdf_layout (lin : List UInt32) (i : Nat) (hi : i < lin.length / 2) :
    (fromLinear lin).means[i]? = lin[i]? ∧ (fromLinear lin).varis[i]? = lin[i + lin.length / 2]? ∧
    (fromLinear lin).msd = lin[lin.length / 2 * 2]? ∧
    (fromLinear lin).means.length = lin.length / 2 ∧ (fromLinear lin).varis.length = lin.length / 2 :=
  fromLinear_layout lin i hi

/-- yes → second child, no → first child, in the specification walk (one step) -/
theorem yes_second_no_first (qs : Questions) (rows : List Row) (label : List Char) (fuel : Nat) (id : Int)
    (r : Row) (pats : List (List Char)) (hr : findRow rows id = some r) (hq : lookupQ qs r.qname = some pats) :
    evalChild qs rows label (fuel + 1) (.node id) =
      evalChild qs rows label fuel (if questionTest pats label then r.yes else r.no) := by
  simp [evalChild, hr, hq]

/-- engine defaults = header values -/
theorem load_defaults {K : Type} [Field K] [LinearOrder K] [IsStrictOrderedRing K] [Transc K] [Consts K]
    (sr fp n : Nat) (st : Option Nat) (lg : Option Bool) (a : Option K) :
    let c := (Condition.default : Condition K).loadModel sr fp n st lg a
    c.samplingFrequency = sr ∧ c.fperiod = fp ∧ c.stage = st.getD 0 ∧ c.useLogGain = lg.getD false ∧ c.alpha = a.getD 0 := by
  have := Jb.C20.fresh_defaults sr fp n st lg a
  simp only at this
  exact ⟨this.2.2.2.2.2.2.2.1, this.2.2.2.2.2.2.2.2.1, this.2.2.2.2.2.2.2.2.2.1, this.2.2.2.2.2.2.2.2.2.2.1, this.2.2.2.2.2.2.2.2.2.2.2⟩

/-- non-vacuity: `*b` matches `ab`, and `?` does not match the empty string -/
example : glob ['*', 'b'] ['a', 'b'] = true :=
  (glob_correct _ _).mpr (.star_eat (.star_skip (.lit (by decide) (by decide) .nil)))
example : glob ['?'] [] = false := by
  cases h : glob ['?'] [] with
  | false => rfl
  | true => exact nomatch (glob_correct _ _).mp h

/-- every Gaussian that selection can ever hand to synthesis from a loaded voice is one of the file's PDFs and has the
    announced layout: `NUM_STATES` entries for durations, `VECTOR_LENGTH × NUM_WINDOWS` (+ voicing weight iff MSD) for a
    stream, `VECTOR_LENGTH` for GV -/
theorem selected_gaussian_shape (bytes : List Nat) (v : ParsedVoice) (h : parseVoice true bytes = .ok v)
    (k : Nat) (label : List Char) (ti id : Nat) (p : PdfBits) :
    (getParameter v.duration k label = some (ti, id, p) →
      p.means.length = v.global.nstates ∧ p.varis.length = v.global.nstates ∧ p.msd = none) ∧
    (∀ s ∈ v.streams, getParameter s.model k label = some (ti, id, p) →
      p.means.length = s.info.veclen * s.info.nwin ∧ p.varis.length = s.info.veclen * s.info.nwin ∧
      p.msd.isSome = s.info.isMsd) ∧
    (∀ s ∈ v.streams, ∀ g, s.gv = some g → getParameter g k label = some (ti, id, p) →
      p.means.length = s.info.veclen ∧ p.varis.length = s.info.veclen ∧ p.msd = none) :=
  selected_shape bytes v h k label ti id p

/-- selection returns entry `id − 1` of the PDF list of the tree whose declared state is the requested one -/
theorem selection_is_indexed (m : FileModel) (k : Nat) (label : List Char) (ti id : Nat) (p : PdfBits)
    (h : getParameter m k label = some (ti, id, p)) :
    2 ≤ ti ∧ 1 ≤ id ∧ ∃ t ps, m.trees[ti - 2]? = some t ∧ t.state = k ∧ evalTree m.questions t label = some id ∧
      m.pdfs[ti - 2]? = some ps ∧ ps[id - 1]? = some p :=
  getParameter_index m k label ti id p h

/-- on an accepted, acyclic, non-empty tree the walk ends in a PDF id for every label -/
theorem accepted_tree_total (qs : Questions) (t : FileTree) (hwf : TreeWF t) (hne : t.rows ≠ [])
    (r : Nat × List TNode) (hc : convertTree true qs t = .ok r) (label : List Char) :
    ∃ k, evalTree qs t label = some k :=
  evalTree_total_of_wf qs t hwf hne r hc label

end Jb.C04
