/-
  C04 — a loaded voice is exactly what the file says.

  Theorems about the voice-file model: wildcard matching is the declarative `Matches` relation
  (`*` any string, `?` any one character); a question holds iff one of its patterns matches; a
  single-leaf tree selects its PDF for every label; the index form the loader builds (`convert_tree`,
  walked by `search_node`) returns exactly what walking the file's own tree by node id returns — "no" to
  the first child, "yes" to the second — on every well-formed tree; `from_linear` lays out means |
  variances | voicing weight; the engine defaults are the header's values (C20 `fresh_defaults`).
  The byte-level grammar of the reader is tied to the loader by parsing the same files in both and
  comparing metadata, options, windows, and — for every label and state — tree index, PDF index and every
  float32 entry bit for bit (widening f32→f64 is exact in IEEE and is done by the driver).
-/
import Jb.Proofs.Hts
import Jb.Props.C20
import Jb.Proofs.ParseShape
import Jb.Proofs.RoundTrip

set_option linter.unusedSectionVars false

namespace Jb.C04
open Jb Jb.Hts

theorem glob_is_matches (p s : List Char) : glob p s = true ↔ Matches p s := glob_correct p s

theorem question_holds_iff (pats : List (List Char)) (label : List Char) :
    questionTest pats label = true ↔ ∃ p ∈ pats, Matches p label := questionTest_iff pats label

theorem single_leaf_tree (qs : Questions) (st : Nat) (id : Int) (q : String) (k : Nat) (label : List Char) :
    evalTree qs ⟨st, [⟨id, q, .pdf k, .pdf k⟩]⟩ label = some k := single_leaf qs st id q k label

theorem index_form_refines_file_tree (qs : Questions) (t : FileTree) (st : Nat) (nodes : List TNode)
    (hwf : TreeWF t) (hne : t.rows ≠ [])
    (hnot : ¬ (t.rows.length = 1 ∧ ∃ r, t.rows = [r] ∧ r.yes = r.no))
    (hc : convertTree true qs t = .ok (st, nodes)) (label : List Char) :
    searchNode nodes label (t.rows.length + 2) 0 = evalTree qs t label ∧
    ∃ k, evalTree qs t label = some k :=
  search_refines_eval qs t st nodes hwf hne hnot hc label

theorem pdf_layout (lin : List UInt32) (i : Nat) (hi : i < lin.length / 2) :
    (fromLinear lin).means[i]? = lin[i]? ∧ (fromLinear lin).varis[i]? = lin[i + lin.length / 2]? ∧
    (fromLinear lin).msd = lin[lin.length / 2 * 2]? ∧
    (fromLinear lin).means.length = lin.length / 2 ∧ (fromLinear lin).varis.length = lin.length / 2 :=
  fromLinear_layout lin i hi

/-- yes → second child, no → first child, in the specification walk (one step) -/
theorem yes_second_no_first (qs : Questions) (rows : List Row) (label : List Char) (fuel : Nat) (id : Int)
    (r : Row) (pats : List (List Char)) (hr : findRow rows id = some r) (hq : lookupQ qs r.qname = some pats) :
    evalChild qs rows label (fuel + 1) (.node id) =
      evalChild qs rows label fuel (if questionTest pats label then r.yes else r.no) := by
  simp [evalChild, hr, hq]

/-- engine defaults = header values -/
theorem load_defaults {K : Type} [Field K] [LinearOrder K] [IsStrictOrderedRing K] [Transc K] [Consts K]
    (sr fp n : Nat) (st : Option Nat) (lg : Option Bool) (a : Option K) :
    let c := (Condition.default : Condition K).loadModel sr fp n st lg a
    c.samplingFrequency = sr ∧ c.fperiod = fp ∧ c.stage = st.getD 0 ∧ c.useLogGain = lg.getD false ∧ c.alpha = a.getD 0 := by
  have := Jb.C20.fresh_defaults sr fp n st lg a
  simp only at this
  exact ⟨this.2.2.2.2.2.2.2.1, this.2.2.2.2.2.2.2.2.1, this.2.2.2.2.2.2.2.2.2.1, this.2.2.2.2.2.2.2.2.2.2.1, this.2.2.2.2.2.2.2.2.2.2.2⟩

/-- non-vacuity: `*b` matches `ab`, and `?` does not match the empty string -/
example : glob ['*', 'b'] ['a', 'b'] = true :=
  (glob_correct _ _).mpr (.star_eat (.star_skip (.lit (by decide) (by decide) .nil)))
example : glob ['?'] [] = false := by
  cases h : glob ['?'] [] with
  | false => rfl
  | true => exact nomatch (glob_correct _ _).mp h

/-- every Gaussian that selection can ever hand to synthesis from a loaded voice is one of the file's PDFs and has the
    announced layout: `NUM_STATES` entries for durations, `VECTOR_LENGTH × NUM_WINDOWS` (+ voicing weight iff MSD) for a
    stream, `VECTOR_LENGTH` for GV -/
theorem selected_gaussian_shape (bytes : List Nat) (v : ParsedVoice) (h : parseVoice true bytes = .ok v)
    (k : Nat) (label : List Char) (ti id : Nat) (p : PdfBits) :
    (getParameter v.duration k label = some (ti, id, p) →
      p.means.length = v.global.nstates ∧ p.varis.length = v.global.nstates ∧ p.msd = none) ∧
    (∀ s ∈ v.streams, getParameter s.model k label = some (ti, id, p) →
      p.means.length = s.info.veclen * s.info.nwin ∧ p.varis.length = s.info.veclen * s.info.nwin ∧
      p.msd.isSome = s.info.isMsd) ∧
    (∀ s ∈ v.streams, ∀ g, s.gv = some g → getParameter g k label = some (ti, id, p) →
      p.means.length = s.info.veclen ∧ p.varis.length = s.info.veclen ∧ p.msd = none) :=
  selected_shape bytes v h k label ti id p

/-- selection returns entry `id − 1` of the PDF list of the tree whose declared state is the requested one -/
theorem selection_is_indexed (m : FileModel) (k : Nat) (label : List Char) (ti id : Nat) (p : PdfBits)
    (h : getParameter m k label = some (ti, id, p)) :
    2 ≤ ti ∧ 1 ≤ id ∧ ∃ t ps, m.trees[ti - 2]? = some t ∧ t.state = k ∧ evalTree m.questions t label = some id ∧
      m.pdfs[ti - 2]? = some ps ∧ ps[id - 1]? = some p :=
  getParameter_index m k label ti id p h

/-- on an accepted, acyclic, non-empty tree the walk ends in a PDF id for every label -/
theorem accepted_tree_total (qs : Questions) (t : FileTree) (hwf : TreeWF t) (hne : t.rows ≠ [])
    (r : Nat × List TNode) (hc : convertTree true qs t = .ok r) (label : List Char) :
    ∃ k, evalTree qs t label = some k :=
  evalTree_total_of_wf qs t hwf hne r hc label

/-! ### read-back: the reader returns exactly what a writer wrote (`Jb/Proofs/RoundTrip.lean`) -/

/-- a little-endian word is read back bit for bit -/
theorem word_read_back (w : UInt32) : u32le (u32bytes w) = w := u32le_u32bytes w

/-- **the float32 entries of a PDF are read back bit for bit**: means | variances | optional voicing weight, for every PDF
    with as many variances as means -/
theorem pdf_read_back (p : PdfBits) (h : p.means.length = p.varis.length) : fromLinear (linearOf p) = p :=
  fromLinear_linearOf p h

/-- **the whole PDF block** (per-tree counts, then every PDF of every tree) written for `n` coefficients per PDF, with or
    without a voicing weight, is read back exactly — any number of trees, any number of PDFs per tree (< 2³²) -/
theorem pdf_block_read_back (pdfs : List (List PdfBits)) (n : Nat) (msd : Bool)
    (hshape : ∀ ps ∈ pdfs, ∀ p ∈ ps, p.means.length = n ∧ p.varis.length = n ∧ p.msd.isSome = msd)
    (hcount : ∀ ps ∈ pdfs, ps.length < 2 ^ 32) :
    parsePdfBlock (pdfBlockBytes pdfs) pdfs.length (2 * n + (if msd then 1 else 0)) = some pdfs :=
  parsePdfBlock_pdfBlockBytes pdfs n msd hshape hcount

/-- a window row `count c₁ … c_count` is read back as the coefficient texts written -/
theorem window_row_read_back (cs : List String) (h : ∀ c ∈ cs, isDoubleText (bytesOf c) = true) (hn : cs.length < 2 ^ 64) :
    parseWindow (windowRowBytes cs) = some cs :=
  parseWindow_windowRowBytes cs h hn

/-- header numbers and `a-b` byte ranges are read back (within the reader's 64-bit guard) -/
theorem header_number_read_back (guarded strict : Bool) (n : Nat) (h : n < 2 ^ 64) :
    headerNat guarded strict (natBytes n) = .ok n := headerNat_natBytes guarded strict n h
theorem header_range_read_back (guarded : Bool) (a b : Nat) (ha : a < 2 ^ 64) (hb : b < 2 ^ 64) :
    headerPair guarded (natBytes a ++ 45 :: natBytes b) = .ok (a, b) := headerPair_natBytes guarded a b ha hb

end Jb.C04
