/-
  C10 — voice interpolation is the weighted average.
  Model: `weighted`, `ModelParameter.mul`, `mulAddAssign` in `Jb/Model/Weights.lean`.
-/
import Jb.Proofs.Weights
import Jb.Proofs.SynthLemmas

set_option linter.unusedSectionVars false

namespace Jb.C10
open Jb

variable {K : Type} [Field K] [LinearOrder K] [IsStrictOrderedRing K]

/-- all Gaussian lists have `n` entries -/
def Uniform (ps : List (ModelParameter K)) (n : Nat) : Prop := ∀ p ∈ ps, p.parameters.length = n

/-- With one weight per voice and equally shaped Gaussians, `weighted` never panics, returns `n`
    Gaussians, and every mean and variance is the weighted sum over the voices. -/
theorem weighted_eq_sum (ws : List K) (ps : List (ModelParameter K)) (n : Nat)
    (hne : ps ≠ []) (hlen : ws.length = ps.length) (hu : Uniform ps n) :
    ∃ r, weighted ws ps = .ok r ∧ r.parameters.length = n ∧
      ∀ j, j < n →
        (r.parameters.getD j ⟨0, 0⟩).mean =
          ((ws.zip ps).map fun x => x.1 * (x.2.parameters.getD j ⟨0, 0⟩).mean).sum ∧
        (r.parameters.getD j ⟨0, 0⟩).vari =
          ((ws.zip ps).map fun x => x.1 * (x.2.parameters.getD j ⟨0, 0⟩).vari).sum := by
  cases ps with
  | nil => exact absurd rfl hne
  | cons p prest =>
    cases ws with
    | nil => simp at hlen
    | cons w wrest =>
      have hp : p.parameters.length = n := hu p (by simp)
      obtain ⟨h1, h2⟩ := fold_parameters
        (fun acc (x : ModelParameter K × K) => match x with | (q, wq) => acc.mulAddAssign wq q)
        (fun _ _ _ => rfl) n prest wrest (p.mul w)
        (by rw [ModelParameter.mul_length, hp]) (fun p' hp' => hu p' (List.mem_cons_of_mem _ hp'))
      refine ⟨_, rfl, h1, ?_⟩
      intro j _
      obtain ⟨e1, e2⟩ := h2 j
      obtain ⟨m1, m2⟩ := ModelParameter.mul_getD p w j
      rw [e1, e2, m1, m2]
      simp only [List.zip_cons_cons, List.map_cons, List.sum_cons]
      exact ⟨trivial, trivial⟩

/-- … and so is the voicing weight when every voice has one. -/
theorem weighted_msd (ws : List K) (ps : List (ModelParameter K)) (ms : List K)
    (hne : ps ≠ []) (hlen : ws.length = ps.length) (hm : ps.map (·.msd) = ms.map some) :
    ∃ r, weighted ws ps = .ok r ∧ r.msd = some ((ws.zip ms).map fun x => x.1 * x.2).sum := by
  cases ps with
  | nil => exact absurd rfl hne
  | cons p prest =>
    cases ws with
    | nil => simp at hlen
    | cons w wrest =>
      cases ms with
      | nil => simp at hm
      | cons m mrest =>
        simp only [List.map_cons, List.cons.injEq] at hm
        obtain ⟨hm1, hm2⟩ := hm
        have hacc : (p.mul w).msd = some (w * m) := by simp [ModelParameter.mul, hm1]
        refine ⟨_, rfl, ?_⟩
        rw [fold_msd _ (fun _ _ _ => rfl) prest wrest mrest (p.mul w) (w * m) hacc hm2]
        simp only [List.zip_cons_cons, List.map_cons, List.sum_cons]

/-- Weights (1,0,…,0) reproduce the first voice alone, exactly (whatever the other voices are). -/
theorem weighted_vertex (p : ModelParameter K) (ps : List (ModelParameter K)) :
    weighted (1 :: List.replicate ps.length 0) (p :: ps) = .ok p := by
  show Outcome.ok _ = Outcome.ok p
  rw [fold_zero _ (fun _ _ _ => rfl), ModelParameter.mul_one]

/-- Blending identical voices with weights summing to 1 reproduces the single voice. -/
theorem weighted_identical (q : ModelParameter K) (ws : List K) (k : Nat) (hk : ws.length = k + 1)
    (hs : ws.sum = 1) : weighted ws (List.replicate (k + 1) q) = .ok q := by
  cases ws with
  | nil => simp at hk
  | cons w wrest =>
    have hl : wrest.length = k := by simpa using hk
    subst hl
    rw [List.sum_cons] at hs
    show Outcome.ok _ = Outcome.ok q
    rw [fold_identical _ (fun _ _ _ => rfl), hs, ModelParameter.mul_one]

/-- Each quantity reads its own weight vector: updating another quantity's weights leaves it alone
    (frame property of the three setters, for any history). -/
theorem which_weights (eps : K) (iw s : IW K) (op : IWOp K) (q : Quantity) (ns : Nat) (hwf : iw.WF ns)
    (h : IWOp.apply eps iw op = .ok s) (hq : q ≠ op.target) : s.select q = iw.select q := by
  have _ := hwf
  exact (apply_ok_select eps iw s op h).2 q hq

/-- **Which weights, at the composition level.** In the whole-library model (`Jb/Model/Synth.lean`)
    `Models::duration` reads the duration weights, `Models::stream(i)` reads `parameter[i]`, `Models::gv(i)`
    reads `gv[i]` — and nothing else of the interpolation weights. -/
theorem duration_uses_duration_weights [FloorRing K] [Transc K] [Consts K] [MlpgConsts K] [FromFile K]
    (voices : List Hts.ParsedVoice) (iw iw' : IW K) (labels : List (List Char)) (h : iw.duration = iw'.duration) :
    Synth.modelsDuration voices iw labels = Synth.modelsDuration voices iw' labels :=
  Synth.duration_reads_duration_weights voices iw iw' labels h

theorem stream_uses_its_parameter_weights [FloorRing K] [Transc K] [Consts K] [MlpgConsts K] [FromFile K]
    (big : K) (voices : List Hts.ParsedVoice) (iw iw' : IW K) (labels : List (List Char)) (nstate i : Nat)
    (h : iw.parameter.getD i [] = iw'.parameter.getD i []) :
    Synth.modelsStream big voices iw labels nstate i = Synth.modelsStream big voices iw' labels nstate i :=
  Synth.stream_reads_its_parameter_weights big voices iw iw' labels nstate i h

theorem gv_uses_its_gv_weights [FloorRing K] [Transc K] [Consts K] [MlpgConsts K] [FromFile K]
    (voices : List Hts.ParsedVoice) (iw iw' : IW K) (labels : List (List Char)) (nstate i : Nat)
    (h : iw.gv.getD i [] = iw'.gv.getD i []) :
    Synth.modelsGv voices iw labels nstate i = Synth.modelsGv voices iw' labels nstate i :=
  Synth.gv_reads_its_gv_weights voices iw iw' labels nstate i h

/-! non-vacuity: two different voices over ℚ, weights (3/4, 1/4) -/
example : weighted ([3 / 4, 1 / 4] : List ℚ)
    [⟨[⟨4, 8⟩], some 1⟩, ⟨[⟨0, 4⟩], some 0⟩] = .ok ⟨[⟨3, 7⟩], some (3 / 4)⟩ := by
  simp only [weighted, List.zip_cons_cons, List.zip_nil_right, List.foldl_cons, List.foldl_nil,
    ModelParameter.mul, ModelParameter.mulAddAssign, ModelParameter.zipAdd, List.map_cons,
    List.map_nil, Option.map_some]
  norm_num

end Jb.C10
