/-
  C07 — excitation has the model's pitch and unit power.

  Theorems (ordered floor field, exact arithmetic) about the pulse logic of `Jb/Model/Vocoder.lean`
  (`excStart`, `pulseStep`, `periodOfLf0`, `rnd`) and about the mixed-excitation ring buffer: one call of
  `excGet` is one overlap-add step with contribution `pulse·h + noise·(δ_centre − h)` (voiced) or the noise
  at the centre tap (unvoiced), and an overlap-add buffer is a convolver — together: the excitation is
  `h*pulses + (δ−h)*noise`. The unit mean power of the pulse
  train is a theorem too (`pulse_train_unit_power`: over any number of samples at a constant period the energy differs
  from the sample count by less than one period). The noise statistics (zero mean, unit variance of one fixed pseudo-random
  sequence) are decided by execution.
-/
import Jb.Proofs.Excitation
import Jb.Proofs.Ring
import Jb.Proofs.PulsePower

set_option linter.unusedSectionVars false

namespace Jb.C07
open Jb

variable {K : Type} [Field K] [LinearOrder K] [IsStrictOrderedRing K] [FloorRing K] [Transc K] [Consts K]

/-- One sample of the pulse generator. -/
theorem pulse_step (e : ExcSt K) :
    (e.pitchOfCurr < e.pitchCounter + 1 →
      pulseStep e = (Transc.sqrt e.pitchOfCurr, { e with pitchCounter := e.pitchCounter + 1 - e.pitchOfCurr })) ∧
    (¬ e.pitchOfCurr < e.pitchCounter + 1 →
      pulseStep e = (0, { e with pitchCounter := e.pitchCounter + 1 })) :=
  pulseStep_spec e

/-- Impulses have height `sqrt(T0)`; a (re)start fires at once and leaves the counter at 1. -/
theorem start_fires_sqrt (e : ExcSt K) (p : K) (hp : 1 ≤ p) (hsil : e.pitchOfCurr = 0) (fp : Nat) :
    let e' := excStart e p fp
    e'.pitchOfCurr = p ∧ e'.pitchCounter = p ∧ e'.pitchInc = 0 ∧
    pulseStep e' = (Transc.sqrt p, { e' with pitchCounter := 1 }) :=
  start_fires e p hp hsil fp

/-- **Gaps are ⌊T0⌋ or ⌈T0⌉.** From any counter in `(0,1]` — which a start and every pulse leave
    behind — the next pulse comes after exactly `j` samples with `j ∈ {⌊T0⌋, ⌊T0⌋+1}`, `j = T0` when
    `T0` is an integer, and the counter is back in `(0,1]`: by induction every gap of a constant-F0
    stretch is ⌊T0⌋ or ⌈T0⌉, so the mean power of the `sqrt(T0)` impulses is 1. -/
theorem gap_floor_or_ceil (p c : K) (hp : 1 ≤ p) (hc0 : 0 < c) (hc1 : c ≤ 1) :
    let j := ⌊p - c⌋₊ + 1
    (∀ i, i < j → i ≥ 1 → ¬ p < c + (i : K)) ∧ p < c + (j : K) ∧
    (j = ⌊p⌋₊ ∨ j = ⌊p⌋₊ + 1) ∧ ((p = (⌊p⌋₊ : K)) → j = ⌊p⌋₊) ∧
    0 < c + (j : K) - p ∧ c + (j : K) - p ≤ 1 :=
  pulse_gap p c hp hc0 hc1

/-- The period glides linearly across the frame when F0 changes between two voiced frames. -/
theorem glide (e : ExcSt K) (p : K) (fp : Nat) (hfp : 0 < fp) (h0 : e.pitchOfCurr ≠ 0) (hp : p ≠ 0) :
    (excStart e p fp).pitchInc = (p - e.pitchOfCurr) / (fp : K) ∧
    (excStart e p fp).pitchOfCurr = e.pitchOfCurr ∧
    e.pitchOfCurr + (fp : K) * (excStart e p fp).pitchInc = p :=
  glide_linear e p fp hfp h0 hp

/-- `T0 = rate / F0`, `F0 = exp(log-F0)` limited to the constants' range; no-data means unvoiced. -/
theorem period (rate : Nat) (lf0 : K) :
    periodOfLf0 rate (Consts.nodata : K) = 0 ∧
    (lf0 ≠ Consts.nodata →
      periodOfLf0 rate lf0 = (rate : K) / Transc.exp (clampS lf0 Consts.minLf0 Consts.maxLf0)) :=
  ⟨period_nodata rate, period_voiced rate lf0⟩

/-- uniform deviates of the fixed LCG lie in `[0,1]` -/
theorem lcg_range (st : RandomSt K) : 0 ≤ (rnd st).1 ∧ (rnd st).1 ≤ 1 := rnd_range st

/-- **Mixed excitation, step.** One `excGet` on a buffer of length `L ≥ 1` with a low-pass of the same
    length is one overlap-add step with the contribution `noise·(δ_{i,centre} − h[i]) + pulse·h[i]` in a
    voiced sample and the noise at the centre tap in an unvoiced one. -/
theorem mixed_excitation_step (e : ExcSt K) (lpf : List K) (hL : 1 ≤ e.ring.length) (hlen : lpf.length = e.ring.length) :
    let noise := (nrandom e.random).1
    let L := e.ring.length
    let contrib :=
      if e.pitchOfCurr = 0 then unvoicedContrib L noise
      else voicedContrib L noise (pulseStep { e with random := (nrandom e.random).2 }).1 lpf
    (excGet e lpf).1 = (ringStep e.ring contrib).1 ∧ (excGet e lpf).2.ring = (ringStep e.ring contrib).2 :=
  excGet_is_ringStep e lpf hL hlen

/-- **Mixed excitation, signal.** An overlap-add buffer convolves: output `n` is `Σ_{i<L} contrib_{n−i}[i]`,
    i.e. `Σ_i h[i]·pulse[n−i] + noise[n−c] − Σ_i h[i]·noise[n−i]` — `h*pulses + (δ−h)*noise`. -/
theorem mixed_excitation_convolution (L : Nat) (hL : 1 ≤ L) (contribs : List (List K)) (hc : ∀ c ∈ contribs, c.length = L)
    (n : Nat) (hn : n < contribs.length) :
    (ringRun (List.replicate L 0) contribs).getD n 0 =
      (Finset.range L).sum fun i => if i ≤ n then (contribs.getD (n - i) []).getD i 0 else 0 :=
  ringRun_conv L hL contribs hc n hn

/-- The defect of the pinned commit (`>=` test): for the integer period 3 the first gap was 2. -/
theorem pinned_first_gap_short : let p : ℚ := 3; let c : ℚ := 1
    (¬ p ≤ c + 1) ∧ p ≤ c + 2 := first_gap_integer_pinned

theorem fixed_first_gap_exact : let p : ℚ := 3; let c : ℚ := 1
    (¬ p < c + 1) ∧ (¬ p < c + 2) ∧ p < c + 3 := first_gap_integer_fixed

/-- The open finding `C07:short-gap-after-downward-glide` as a statement: the hypothesis "counter in (0, 1]" of
    `gap_floor_or_ceil` is necessary. A counter above 1 — which a steep downward glide of the period leaves
    behind — makes the next gap shorter than `⌊T0⌋`: with `T0 = 20` and counter `3/2` the pulse fires after 19
    samples (`counter + 18 ≤ T0 < counter + 19`). -/
theorem counter_above_one_shortens_gap : let p : ℚ := 20; let c : ℚ := 3 / 2
    (¬ p < c + 18) ∧ p < c + 19 := by
  norm_num

/-! ### unit mean power of the pulse train -/

/-- **Energy bookkeeping.** Over `n` samples at a constant period `p ≥ 1`, starting with the counter in `(0, p]`, the
    energy of the pulse train is exactly `n + c₀ − c_n` (`c` the counter), the counter stays in `(0, p]` and the
    period is untouched. -/
theorem pulse_train_energy (e : ExcSt K) (hp : 1 ≤ e.pitchOfCurr) (hc0 : 0 < e.pitchCounter)
    (hc : e.pitchCounter ≤ e.pitchOfCurr)
    (hsqrt : Transc.sqrt e.pitchOfCurr * Transc.sqrt e.pitchOfCurr = e.pitchOfCurr) (n : Nat) :
    ((pulseRun e n).1.map fun x => x * x).sum = (n : K) + e.pitchCounter - (pulseRun e n).2.pitchCounter ∧
    0 < (pulseRun e n).2.pitchCounter ∧ (pulseRun e n).2.pitchCounter ≤ e.pitchOfCurr ∧
    (pulseRun e n).2.pitchOfCurr = e.pitchOfCurr :=
  pulse_energy e hp hc0 hc hsqrt n

/-- **Mean power 1**: the energy of any `n` samples differs from `n` by less than one period, so the mean power tends
    to 1 (it is within `p/n` of 1) — the height `sqrt(T0)` is exactly what a spacing of `T0` needs. -/
theorem pulse_train_unit_power (e : ExcSt K) (hp : 1 ≤ e.pitchOfCurr) (hc0 : 0 < e.pitchCounter)
    (hc : e.pitchCounter ≤ e.pitchOfCurr)
    (hsqrt : Transc.sqrt e.pitchOfCurr * Transc.sqrt e.pitchOfCurr = e.pitchOfCurr) (n : Nat) :
    |((pulseRun e n).1.map fun x => x * x).sum - (n : K)| < e.pitchOfCurr :=
  pulse_mean_power e hp hc0 hc hsqrt n

/-- every sample of the train is `0` or `sqrt(T0)` -/
theorem pulse_train_values (e : ExcSt K) (n : Nat) :
    ∀ x ∈ (pulseRun e n).1, x = 0 ∨ x = Transc.sqrt e.pitchOfCurr :=
  pulse_values e n

end Jb.C07
