/-
  C07 — excitation has the model's pitch and unit power.

  Theorems (ordered floor field, exact arithmetic) about the pulse logic of `Jb/Model/Vocoder.lean`
  (`excStart`, `pulseStep`, `periodOfLf0`, `rnd`). The ring-buffer mixing law
  (`h*pulses + (δ−h)*noise`) and the noise statistics are decided by the correspondence and by the
  oracle on the implementation (three runs with low-pass h, δ and 0), not by a theorem.
-/
import Jb.Proofs.Excitation

set_option linter.unusedSectionVars false

namespace Jb.C07
open Jb

variable {K : Type} [Field K] [LinearOrder K] [IsStrictOrderedRing K] [FloorRing K] [Transc K] [Consts K]

/-- One sample of the pulse generator. -/
theorem pulse_step (e : ExcSt K) :
    (e.pitchOfCurr < e.pitchCounter + 1 →
      pulseStep e = (Transc.sqrt e.pitchOfCurr, { e with pitchCounter := e.pitchCounter + 1 - e.pitchOfCurr })) ∧
    (¬ e.pitchOfCurr < e.pitchCounter + 1 →
      pulseStep e = (0, { e with pitchCounter := e.pitchCounter + 1 })) :=
  pulseStep_spec e

/-- Impulses have height `sqrt(T0)`; a (re)start fires at once and leaves the counter at 1. -/
theorem start_fires_sqrt (e : ExcSt K) (p : K) (hp : 1 ≤ p) (hsil : e.pitchOfCurr = 0) (fp : Nat) :
    let e' := excStart e p fp
    e'.pitchOfCurr = p ∧ e'.pitchCounter = p ∧ e'.pitchInc = 0 ∧
    pulseStep e' = (Transc.sqrt p, { e' with pitchCounter := 1 }) :=
  start_fires e p hp hsil fp

/-- **Gaps are ⌊T0⌋ or ⌈T0⌉.** From any counter in `(0,1]` — which a start and every pulse leave
    behind — the next pulse comes after exactly `j` samples with `j ∈ {⌊T0⌋, ⌊T0⌋+1}`, `j = T0` when
    `T0` is an integer, and the counter is back in `(0,1]`: by induction every gap of a constant-F0
    stretch is ⌊T0⌋ or ⌈T0⌉, so the mean power of the `sqrt(T0)` impulses is 1. -/
theorem gap_floor_or_ceil (p c : K) (hp : 1 ≤ p) (hc0 : 0 < c) (hc1 : c ≤ 1) :
    let j := ⌊p - c⌋₊ + 1
    (∀ i, i < j → i ≥ 1 → ¬ p < c + (i : K)) ∧ p < c + (j : K) ∧
    (j = ⌊p⌋₊ ∨ j = ⌊p⌋₊ + 1) ∧ ((p = (⌊p⌋₊ : K)) → j = ⌊p⌋₊) ∧
    0 < c + (j : K) - p ∧ c + (j : K) - p ≤ 1 :=
  pulse_gap p c hp hc0 hc1

/-- The period glides linearly across the frame when F0 changes between two voiced frames. -/
theorem glide (e : ExcSt K) (p : K) (fp : Nat) (hfp : 0 < fp) (h0 : e.pitchOfCurr ≠ 0) (hp : p ≠ 0) :
    (excStart e p fp).pitchInc = (p - e.pitchOfCurr) / (fp : K) ∧
    (excStart e p fp).pitchOfCurr = e.pitchOfCurr ∧
    e.pitchOfCurr + (fp : K) * (excStart e p fp).pitchInc = p :=
  glide_linear e p fp hfp h0 hp

/-- `T0 = rate / F0`, `F0 = exp(log-F0)` limited to the constants' range; no-data means unvoiced. -/
theorem period (rate : Nat) (lf0 : K) :
    periodOfLf0 rate (Consts.nodata : K) = 0 ∧
    (lf0 ≠ Consts.nodata →
      periodOfLf0 rate lf0 = (rate : K) / Transc.exp (clampS lf0 Consts.minLf0 Consts.maxLf0)) :=
  ⟨period_nodata rate, period_voiced rate lf0⟩

/-- uniform deviates of the fixed LCG lie in `[0,1]` -/
theorem lcg_range (st : RandomSt K) : 0 ≤ (rnd st).1 ∧ (rnd st).1 ≤ 1 := rnd_range st

/-- The defect of the pinned commit (`>=` test): for the integer period 3 the first gap was 2. -/
theorem pinned_first_gap_short : let p : ℚ := 3; let c : ℚ := 1
    (¬ p ≤ c + 1) ∧ p ≤ c + 2 := first_gap_integer_pinned

theorem fixed_first_gap_exact : let p : ℚ := 3; let c : ℚ := 1
    (¬ p < c + 1) ∧ (¬ p < c + 2) ∧ p < c + 3 := first_gap_integer_fixed

end Jb.C07
