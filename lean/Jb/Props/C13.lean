/-
  C13 — the LSP synthesis filter realises the model spectrum.  **Partial.**

  Theorems (ordered field): `lsp2lpc` (repaired) reads the line spectral frequencies only — the gain
  element does not enter it (the pinned commit fed the gain in as the first frequency: fix 3dba546);
  `gc2gc` between equal γ is truncation, so for the vocoder's equal-α, equal-γ call `mgc2mgc` reduces
  to normalisation round trips; `ignorm ∘ gnorm = id` when the power function is; the MGLSA filter is
  the `stage`-fold cascade of one section.
  `lsp2lpc` returns exactly the coefficient list of A(z) = ½(P(z)+Q(z)) built by polynomial multiplication of
  the second-order sections (even and odd orders) — `Jb/Proofs/LspPoly.lean`.
  For **every α** (`Jb/Proofs/MglsaWarp.lean`, `LspWarp.lean`): the filter is `stage` identical sections in cascade; one
  section computes `x = y + Σ_{k≥1} c_k Φ_k(y)` (Φ_k the warped basis), which for the coefficients the vocoder derives from
  an LSP frame is `(1+γb₀)·x = (1+γ·mgc₀)·A(z̃) y` with `A = ½(P+Q)` evaluated in the warped delay `z̃⁻¹` — the section is
  `κ / A(z̃)`, the cascade `κ^stage / A(z̃)^stage`, and the gain relation ties `c[0]·κ^stage` to `K`.  So the transfer
  function of the property, `K / A(z̃)^stage`, is an identity of the code's arithmetic for every α, order and stage.
  Not proved: the analytic clause |ln|H| − ln(K/|A|^s)| ≤ 0.001 neper, decided on
  every run against A(z) built by polynomial multiplication in the driver.
-/
import Jb.Proofs.AllPole
import Jb.Proofs.Lti
import Jb.Proofs.Cepstrum
import Jb.Proofs.LspStab
import Jb.Proofs.LspPoly
import Jb.Proofs.LspWarp

set_option linter.unusedSectionVars false

namespace Jb.C13
open Jb

variable {K : Type} [Field K] [LinearOrder K] [IsStrictOrderedRing K] [Transc K] [Consts K]

/-- the repaired `lsp2lpc` does not read the gain element -/
theorem lsp2lpc_ignores_gain (b : Bool) (g g' : K) (w : List K) :
    lsp2lpc ⟨b, true⟩ (g :: w) = lsp2lpc ⟨b, true⟩ (g' :: w) := by
  simp [lsp2lpc]

/-- … and uses exactly `order = len − 1` frequencies, returning `order + 1` coefficients headed by 1 -/
theorem lsp2lpc_head (fx : Fix) (v : List K) : (lsp2lpc fx v).head? = some 1 := by
  simp [lsp2lpc]

theorem gc2gc_same (c : List K) (g : K) (m : Nat) (hm : m < c.length) : gc2gc c g m g = c.take (m + 1) :=
  gc2gc_same_gamma c g m hm

theorem normalisation_roundtrip (gamma : K) (hg : gamma ≠ 0) (c0 : K) (rest : List K)
    (hk : 1 + gamma * c0 ≠ 0)
    (hpow : Transc.pow (Transc.pow (1 + gamma * c0) (1 / gamma)) gamma = 1 + gamma * c0) :
    ignorm gamma (gnorm gamma (c0 :: rest)) = c0 :: rest :=
  ignorm_gnorm gamma hg c0 rest hk hpow

/-- the MGLSA filter is the cascade of `stage` identical sections -/
theorem stage_cascade (d : List K) (ds : List (List K)) (x alpha : K) (c : List K) :
    mglsaDf (d :: ds) x alpha c =
      (let r := mglsaDff d x alpha c
       let r2 := mglsaDf ds r.1 alpha c
       (r2.1, r.2 :: r2.2)) := by
  unfold mglsaDf
  simp only [List.foldl_cons, List.nil_append]
  generalize mglsaDff d x alpha c = r
  suffices H : ∀ (ds : List (List K)) (x : K) (acc : List (List K)),
      (ds.foldl (fun (a : K × List (List K)) d => ((mglsaDff d a.1 alpha c).1, a.2 ++ [(mglsaDff d a.1 alpha c).2])) (x, acc)) =
      ((ds.foldl (fun (a : K × List (List K)) d => ((mglsaDff d a.1 alpha c).1, a.2 ++ [(mglsaDff d a.1 alpha c).2])) (x, [])).1,
       acc ++ (ds.foldl (fun (a : K × List (List K)) d => ((mglsaDff d a.1 alpha c).1, a.2 ++ [(mglsaDff d a.1 alpha c).2])) (x, [])).2) by
    have := H ds r.1 [r.2]
    simpa using this
  intro ds
  induction ds with
  | nil => intro x acc; simp
  | cons d ds ih =>
    intro x acc
    simp only [List.foldl_cons, List.nil_append]
    rw [ih _ (acc ++ _), ih _ [_]]
    simp

/-- γ = −1/stage -/
theorem stage_gamma (nmcp nlpf stage : Nat) (hs : stage ≠ 0) (lg : Bool) (rate : Nat) (a b vol : K) (fp : Nat) :
    (VocoderSt.new nmcp nlpf stage lg rate a b vol fp : VocoderSt K).gamma = -(1 : K) / (stage : K) := by
  simp [VocoderSt.new, hs]

/-- Increasing, well-separated frequencies (spacing and margins at least π/(4·len)) pass the stability
    check unchanged, so the filter is driven by exactly the given line spectral frequencies. -/
theorem well_separated_unchanged (v : List K) (h : LspStable v) : checkLspStability v = v :=
  checkLspStability_id v h

/-- **`lsp2lpc` = ½(P + Q)**: the LPC polynomial whose line spectral frequencies are the given ones. -/
theorem lpc_polynomial (b : Bool) (g : K) (lsp : List K) :
    lsp2lpc ⟨b, true⟩ (g :: lsp) = lspRefPoly lsp :=
  lsp2lpc_poly b g lsp

/-- **The pulse response determines the filter** (LSP / MGLSA family): with frozen coefficients the cascade of
    `stage` sections is linear and time-invariant, so its output on any excitation is the convolution of the
    excitation with the response to one pulse. -/
theorem response_is_convolution (alpha : K) (c : List K) (stage : Nat) (xs : List K) (n : Nat) (hn : n < xs.length) :
    (mglsaRun alpha c (mglsaInit stage c.length) xs).getD n 0 =
      (Finset.range (n + 1)).sum fun k => (mglsaPulse alpha c stage xs.length).getD k 0 * xs.getD (n - k) 0 :=
  mglsaRun_convolution alpha c stage xs n hn

/-- **At `alpha = 0` the filter coefficients are `[K, a₁ … a_m]`** with `a` the coefficients of `½(P + Q)` and `K` the
    (floored) gain: the whole chain `lsp2lpc → ignorm → ·(−stage) → gnorm → gc2gc → ignorm → mc2b → gnorm → ·γ`
    collapses (hypotheses: the two laws of `powf` that are used, for the positive gain). -/
theorem coefficients_are_gain_and_lpc (b useLogGain : Bool) (stage : Nat) (hs : stage ≠ 0) (g : K) (lsp : List K)
    (hmin : 0 < (Consts.minGain : K))
    (hpow : Transc.pow (Transc.pow (lspGain useLogGain g) (-1 / (stage : K))) (1 / (-1 / (stage : K))) = lspGain useLogGain g)
    (hne : Transc.pow (lspGain useLogGain g) (-1 / (stage : K)) ≠ 0) :
    lspCoefficients ⟨b, true⟩ useLogGain stage (-1 / (stage : K)) 0 (g :: lsp) =
      lspGain useLogGain g :: (lspRefPoly lsp).tail :=
  lspCoefficients_alpha0_poly b useLogGain stage hs g lsp hmin hpow hne

/-- **… and the cascade run with them is `1 / A(z)^stage`**: each section computes the all-pole difference equation
    `y[n] = x[n] − Σ_{k≥1} c[k]·y[n−k]`, and `stage` sections iterate it. Together with the gain factor the vocoder
    applies to the excitation this is `K / A(z)^stage`, `A = ½(P + Q)`, for `alpha = 0` — the formula of the
    property as an identity of the code's arithmetic. -/
theorem cascade_is_all_pole (c : List K) (hc : 2 ≤ c.length) (stage : Nat) (xs : List K) :
    mglsaRun 0 c (mglsaInit stage c.length) xs = (allPoleRun c.tail)^[stage] xs :=
  mglsa_cascade_allpole c hc stage xs

/-! ### every `α`: the cascade is `K / A(z̃)^stage` as an identity of the code's arithmetic -/

/-- the filter is the `stage`-fold iteration of one section (from rest) -/
theorem filter_is_stage_sections (alpha : K) (c : List K) (stage : Nat) (xs : List K) :
    mglsaRun alpha c (mglsaInit stage c.length) xs = (dffRun alpha c (List.replicate c.length 0))^[stage] xs :=
  mglsaRun_sections alpha c stage xs

/-- **one section inverts `1 + Σ_{k≥1} c_k Φ_k`**: input `x` and output `y` satisfy `x = y + Σ c_k Φ_k(y)`, with `Φ_k`
    the basis of the warped delay line — for every `α` and every order. -/
theorem section_inverts_warped_polynomial (alpha : K) (c : List K) (hc : 2 ≤ c.length) (xs : List K) (n : Nat)
    (hn : n < xs.length) :
    xs.getD n 0 = (dffRun alpha c (List.replicate c.length 0) xs).getD n 0 +
      (Finset.Ico 1 c.length).sum fun k =>
        c.getD k 0 * (warpBasis alpha (dffRun alpha c (List.replicate c.length 0) xs) k).getD n 0 :=
  dffRun_warp alpha c hc xs n hn

/-- **one section of the LSP vocoder is `κ / A(z̃)`**, `A = ½(P+Q)` read in the warped delay `z̃⁻¹`, for every `α`:
    `(1+γb₀)·x[t] = (1+γ·mgc₀)·Σ_m a_m (z̃^{-m} y)[t]` (hypotheses: the two `powf` laws used for the positive gain, and
    the non-zero normalisation factor the code divides by). -/
theorem section_is_warped_all_pole (b useLogGain : Bool) (stage : Nat) (hs : stage ≠ 0) (alpha g : K) (lsp : List K)
    (hl : 1 ≤ lsp.length) (hmin : 0 < (Consts.minGain : K))
    (hpow : Transc.pow (Transc.pow (lspGain useLogGain g) (-1 / (stage : K))) (1 / (-1 / (stage : K))) = lspGain useLogGain g)
    (hne : Transc.pow (lspGain useLogGain g) (-1 / (stage : K)) ≠ 0)
    (hb0 : 1 + (-1 / (stage : K)) *
        (mc2b alpha (lsp2mgc ⟨b, true⟩ useLogGain stage (-1 / (stage : K)) (g :: lsp))).getD 0 0 ≠ 0)
    (xs : List K) (t : Nat) (ht : t < xs.length) :
    let gamma : K := -1 / (stage : K)
    let mgc := lsp2mgc ⟨b, true⟩ useLogGain stage gamma (g :: lsp)
    let c := lspCoefficients ⟨b, true⟩ useLogGain stage gamma alpha (g :: lsp)
    let ys := dffRun alpha c (List.replicate c.length 0) xs
    (1 + gamma * (mc2b alpha mgc).getD 0 0) * xs.getD t 0 =
      (1 + gamma * mgc.getD 0 0) * warpPoly alpha (lspRefPoly lsp) ys t :=
  section_lpc b useLogGain stage hs alpha g lsp hl hmin hpow hne hb0 xs t ht

/-- **the gains multiply up to `K`**: the excitation gain `c[0]` times `κ^stage` is `(1+γ·mgc₀)^{1/γ}`, which the
    `α = 0` collapse (`coefficients_are_gain_and_lpc`) identifies with the floored gain `K`. -/
theorem gains_multiply_to_K (fx : Fix) (useLogGain : Bool) (stage : Nat) (gamma alpha : K) (hg : gamma ≠ 0) (v : List K)
    (hv : 1 ≤ v.length)
    (hb0 : 1 + gamma * (mc2b alpha (lsp2mgc fx useLogGain stage gamma v)).getD 0 0 ≠ 0)
    (hm0 : 1 + gamma * (lsp2mgc fx useLogGain stage gamma v).getD 0 0 ≠ 0)
    (hp1 : Transc.pow (1 + gamma * (mc2b alpha (lsp2mgc fx useLogGain stage gamma v)).getD 0 0) (1 / gamma) *
        (1 + gamma * (mc2b alpha (lsp2mgc fx useLogGain stage gamma v)).getD 0 0) ^ stage = 1)
    (hp2 : Transc.pow (1 + gamma * (lsp2mgc fx useLogGain stage gamma v).getD 0 0) (1 / gamma) *
        (1 + gamma * (lsp2mgc fx useLogGain stage gamma v).getD 0 0) ^ stage = 1) :
    (lspCoefficients fx useLogGain stage gamma alpha v).getD 0 0 =
        Transc.pow (1 + gamma * (mc2b alpha (lsp2mgc fx useLogGain stage gamma v)).getD 0 0) (1 / gamma) ∧
    (lspCoefficients fx useLogGain stage gamma alpha v).getD 0 0 *
        ((1 + gamma * (mc2b alpha (lsp2mgc fx useLogGain stage gamma v)).getD 0 0) /
          (1 + gamma * (lsp2mgc fx useLogGain stage gamma v).getD 0 0)) ^ stage =
      Transc.pow (1 + gamma * (lsp2mgc fx useLogGain stage gamma v).getD 0 0) (1 / gamma) :=
  gain_relation fx useLogGain stage gamma alpha hg v hv hb0 hm0 hp1 hp2

end Jb.C13
