/-
  C02 for the whole library: `history_refines` instantiated with the generator `Engine::generator` builds from the voice
  files. Separate from `Jb/Props/C02.lean` only because `Jb/Proofs/SynthBridge.lean` uses that file's theorems.
-/
import Jb.Proofs.SynthBridge

set_option linter.unusedSectionVars false

namespace Jb.C02
open Jb

/-- **C02 from the voice files.** Whenever `Engine::generator` returns a generator `g` (any voice set, weights, setter
    history, labels — no well-formedness needed beyond that), one-shot synthesis returns a waveform `w` of
    `frame_period × frames` samples, and **every** history of `generate_step` (any buffer), `synthesized_frames` and
    `generate_all` calls on `g` yields exactly the observations of the specification machine "cursor into `w`". -/
theorem library_history_refines {K : Type} [Field K] [LinearOrder K] [IsStrictOrderedRing K] [FloorRing K]
    [Transc K] [Consts K] [MlpgConsts K] [FromFile K] (fx : Fix) (big : K) (voices : List Hts.ParsedVoice) (iw : IW K)
    (ops : List (CondOp K)) (f : Condition K → Bool) (labels : List (List Char)) (times : List (K × K))
    (g : Gen (VocoderSt K) (List K × List K × List K))
    (hg : Synth.generator big voices iw ops f labels times = .ok g) :
    ∃ w, Synth.synthesize fx big voices iw ops f labels times = .ok w ∧ w.length = g.fperiod * g.frames.length ∧
      ∀ hist : List (GenOp × List K),
        runOps (vocoderFrame fx g.fperiod) true g hist = specOps w g.fperiod g.frames.length 0 hist :=
  Synth.generator_history_refines fx big voices iw ops f labels times g hg

/-- on a well-formed voice set the generator exists, starts at frame 0 and has one frame per duration unit -/
theorem library_generator_exists {K : Type} [Field K] [LinearOrder K] [IsStrictOrderedRing K] [FloorRing K]
    [Transc K] [Consts K] [MlpgConsts K] [FromFile K] (big : K) (voices : List Hts.ParsedVoice) (iw : IW K)
    (h : Synth.VoicesWF voices iw) (v0 : Hts.ParsedVoice) (hv0 : voices.head? = some v0) (ops : List (CondOp K))
    (f : Condition K → Bool) (labels : List (List Char)) (times : List (K × K))
    (halign : (Synth.condOf (K := K) v0 ops).alignment = true → times.length = labels.length) :
    ∃ g, Synth.generator big voices iw ops f labels times = .ok g ∧ g.next = 0 ∧
      g.fperiod = (Synth.condOf (K := K) v0 ops).fperiod := by
  obtain ⟨g, p, hg, -, h1', h2', -⟩ := Synth.generator_total big voices iw h v0 hv0 ops f labels times halign
  exact ⟨g, hg, h2', h1'⟩

end Jb.C02
