/-
  Model of `src/duration.rs` (DurationEstimator) and of the time handling in `src/label.rs`
  (`Labels::new` gap filling, the 100 ns → frame conversion).
-/
import Jb.Model.Scalar

namespace Jb

structure MeanVari (α : Type) where
  mean : α
  vari : α
  deriving Repr, BEq

section
variable {α : Type} [Add α] [Sub α] [Mul α] [Div α] [Neg α] [OfNat α 0] [OfNat α 1] [NatCast α]
  [LT α] [DecidableLT α] [LE α] [DecidableLE α] [RoundNat α]

def absS (x : α) : α := if x < 0 then -x else x

/-- `estimate_duration`: `(mean + rho * vari).round().max(1.0) as usize` per state. -/
def estimateDuration (ps : List (MeanVari α)) (rho : α) : List Nat :=
  ps.map fun p => RoundNat.roundMax1 (p.mean + rho * p.vari)

/-- `duration_params.iter().sum()` : fold from `MeanVari(0,0)`. -/
def sumMeanVari (ps : List (MeanVari α)) : MeanVari α :=
  ps.foldl (fun a b => ⟨a.mean + b.mean, a.vari + b.vari⟩) ⟨0, 0⟩

/-- `calculate_cost d p = |rho − (d − mean)/vari|`. -/
def durCost (rho : α) (d : Nat) (p : MeanVari α) : α :=
  absS (rho - ((d : α) - p.mean) / p.vari)

/-- Index of the first minimum of `cost` among the positions satisfying `ok` (what
    `iter().filter(ok).min_by(cost)` selects: on ties `min_by` keeps the first). -/
def argminFirst (costs : List α) (ok : List Bool) : Option Nat :=
  let rec go (i : Nat) (cs : List α) (oks : List Bool) (best : Option (Nat × α)) : Option (Nat × α) :=
    match cs, oks with
    | c :: cs, o :: oks =>
      let best' := if o then
          match best with
          | none => some (i, c)
          | some (_, bc) => if c < bc then some (i, c) else best
        else best
      go (i + 1) cs oks best'
    | _, _ => best
  (go 0 costs ok none).map (·.1)

def listModify (l : List Nat) (i : Nat) (f : Nat → Nat) : List Nat :=
  match l, i with
  | [], _ => []
  | x :: xs, 0 => f x :: xs
  | x :: xs, i + 1 => x :: listModify xs i f

/-- The greedy `while target_length != sum` loop. `fuel` bounds the number of iterations; the
    theorem `greedy_fuel_suffices` shows `|target − sum|` is enough, so `none` (out of fuel) is never
    returned by `estimateWithFrameLength`. `panic` is the `unwrap()` on an empty `min_by`. -/
def greedyLoop (ps : List (MeanVari α)) (rho : α) (target : Nat) :
    Nat → List Nat → Nat → Outcome Unit (Option (List Nat))
  | 0, dur, sum => .ok (if target = sum then some dur else none)
  | fuel + 1, dur, sum =>
    if target = sum then .ok (some dur)
    else if sum < target then
      let costs := (dur.zip ps).map fun (d, p) => durCost rho (d + 1) p
      match argminFirst costs (dur.map fun _ => true) with
      | none => .panic "duration.rs:min_by.unwrap(up)"
      | some i => greedyLoop ps rho target fuel (listModify dur i (· + 1)) (sum + 1)
    else
      let costs := (dur.zip ps).map fun (d, p) => durCost rho (d - 1) p
      match argminFirst costs (dur.map fun d => decide (1 < d)) with
      | none => .panic "duration.rs:min_by.unwrap(down)"
      | some i => greedyLoop ps rho target fuel (listModify dur i (· - 1)) (sum - 1)

/-- `estimate_duration_with_frame_length`. -/
def estimateWithFrameLength (ps : List (MeanVari α)) (frameLength : α) : Outcome Unit (List Nat) :=
  let size := ps.length
  let target := RoundNat.roundMax1 frameLength
  if target ≤ size then .ok (List.replicate size 1)
  else
    let mv := sumMeanVari ps
    let rho := ((target : α) - mv.mean) / mv.vari
    let dur := estimateDuration ps rho
    if dur.isEmpty then .ok []
    else
      let sum := dur.sum
      let fuel := if sum < target then target - sum else sum - target
      match greedyLoop ps rho target fuel dur sum with
      | .ok (some d) => .ok d
      | .ok none => .panic "model: out of fuel (unreachable, see greedy_fuel_suffices)"
      | .err e => .err e
      | .panic s => .panic s

/-- `DurationEstimator::create(speed)`. `speedIsOne` is the test `speed != 1.0` (a comparison on
    the scalar; passed in so that the definition needs no `DecidableEq α`). -/
def durationCreate (ps : List (MeanVari α)) (speed : α) (speedIsOne : Bool) : Outcome Unit (List Nat) :=
  let d := estimateDuration ps 0
  if speedIsOne then .ok d
  else estimateWithFrameLength ps ((d.sum : α) / speed)

/-- `DurationEstimator::create_with_alignment(times)`, loop state `(frame_count, next_state, state)`.
    `extendFinal = true` is the repaired behaviour (the fallback durations of a trailing label group
    with unknown end are appended); `false` is the behaviour of the pinned commit (computed, dropped). -/
def alignLoop (extendFinal : Bool) (ps : List (MeanVari α)) (nstate : Nat) :
    List (α × α) → Nat → Nat → Nat → List Nat → Outcome Unit (List Nat)
  | [], _, _, _, acc => .ok acc
  | (_, e) :: rest, frameCount, nextState, state, acc =>
    let hi := state + nstate
    if 0 ≤ e then
      if hi ≤ ps.length ∧ nextState ≤ hi then
        let group := (ps.drop nextState).take (hi - nextState)
        match estimateWithFrameLength group (e - (frameCount : α)) with
        | .ok cur => alignLoop extendFinal ps nstate rest (frameCount + cur.sum) hi hi (acc ++ cur)
        | .err x => .err x
        | .panic s => .panic s
      else .panic "duration.rs:parameters[next_state..state+nstate]"
    else if rest.isEmpty then
      if hi ≤ ps.length ∧ nextState ≤ hi then
        let group := (ps.drop nextState).take (hi - nextState)
        let cur := estimateDuration group 0
        alignLoop extendFinal ps nstate rest frameCount nextState hi
          (if extendFinal then acc ++ cur else acc)
      else .panic "duration.rs:parameters[next_state..state+nstate]"
    else alignLoop extendFinal ps nstate rest frameCount nextState hi acc

def createWithAlignment (extendFinal : Bool) (ps : List (MeanVari α)) (nstate : Nat)
    (times : List (α × α)) : Outcome Unit (List Nat) :=
  alignLoop extendFinal ps nstate times 0 0 0 []

/-! ### `Labels::new` : fill unknown boundaries from the neighbours, normalise negatives to −1 -/

def normTime (t : α × α) : α × α :=
  (if t.1 < 0 then -1 else t.1, if t.2 < 0 then -1 else t.2)

/-- One pass exactly as the `for i in 0..times.len()` loop: at step `i` the pair `(times[i],
    times[i+1])` is adjusted using their *current* values, then `times[i]` is normalised. -/
def fillTimesAux (cur : α × α) : List (α × α) → List (α × α)
  | [] => [normTime cur]
  | nxt :: rest =>
    let (c, n) :=
      if cur.2 < 0 ∧ 0 ≤ nxt.1 then ((cur.1, nxt.1), nxt)
      else if 0 ≤ cur.2 ∧ nxt.1 < 0 then (cur, (cur.2, nxt.2))
      else (cur, nxt)
    normTime c :: fillTimesAux n rest

def fillTimes : List (α × α) → List (α × α)
  | [] => []
  | t :: rest => fillTimesAux t rest

/-- `rate = sampling_rate / (fperiod * 1e7)`; a time stamp in 100 ns units times `rate` is frames. -/
def timeRate (sr fperiod : Nat) : α := (sr : α) / ((fperiod : α) * ((10000000 : Nat) : α))

end
end Jb
