/-
  Scalar layer of the jbonsai model.

  Every numeric definition of the model is written once, generically over a scalar type `α` that
  only has to provide the arithmetic operators, an order with decidable comparison, a cast from
  `Nat`, and two small classes of its own:

  * `Transc α`   — the transcendental functions the code calls (`exp ln cos sqrt pow`);
  * `RoundNat α` — `roundMax1 x`, the model of Rust's `x.round().max(1.0) as usize`;
  * `Consts α`   — the non-rational constants of `src/constants.rs` (their `f64` values are tied to
                   the code by the `consts` correspondence op).

  Execution instantiates `α := Float` (this file); theorems instantiate any linearly ordered field.
  This file and everything under `Jb/Model` is import-free so the driver links as a `lean_exe`.
-/
namespace Jb

class Transc (α : Type) where
  exp  : α → α
  ln   : α → α
  cos  : α → α
  sqrt : α → α
  pow  : α → α → α

class RoundNat (α : Type) where
  /-- `x.round().max(1.0) as usize` -/
  roundMax1 : α → Nat

/-- Constants of `src/constants.rs` and `std::f64::consts::PI`. -/
class Consts (α : Type) where
  maxLf0   : α
  minLf0   : α
  halfTone : α
  db       : α
  nodata   : α
  pi       : α
  minGain  : α   -- 1e-100: floor of the LSP filter gain

instance : NatCast Float := ⟨Float.ofNat⟩

instance : Transc Float where
  exp := Float.exp
  ln := Float.log
  cos := Float.cos
  sqrt := Float.sqrt
  pow := Float.pow

/-- Rust's `f64::max(x, 1.0)`: the non-NaN operand when one is NaN. -/
def fmax1 (x : Float) : Float :=
  if x.isNaN then 1.0 else if x < 1.0 then 1.0 else x

instance : RoundNat Float where
  roundMax1 x := (fmax1 x.round).toUSize.toNat

instance : Consts Float where
  maxLf0   := Float.ofBits 0x4023CE95EBA4F8B4
  minLf0   := Float.ofBits 0x4007F7427B73E391
  halfTone := Float.ofBits 0x3FAD9303FEA2F7EA
  db       := Float.ofBits 0x3FBD791C5F888822
  nodata   := -10000000000.0
  pi       := Float.ofBits 0x400921FB54442D18
  minGain  := Float.ofBits 0x2B2BFF2EE48E0530

/-- Outcome of a modelled call: the Rust code either returns, returns an `Err`, or panics.
    Panics are values of the model so that "never panics" is a theorem about it. -/
inductive Outcome (ε : Type) (α : Type) where
  | ok    : α → Outcome ε α
  | err   : ε → Outcome ε α
  | panic : String → Outcome ε α
  deriving Repr

namespace Outcome
def bind {ε α β} (x : Outcome ε α) (f : α → Outcome ε β) : Outcome ε β :=
  match x with
  | .ok a => f a
  | .err e => .err e
  | .panic s => .panic s

def map {ε α β} (f : α → β) (x : Outcome ε α) : Outcome ε β :=
  match x with
  | .ok a => .ok (f a)
  | .err e => .err e
  | .panic s => .panic s

def isOk {ε α} : Outcome ε α → Bool
  | .ok _ => true
  | _ => false

def isPanic {ε α} : Outcome ε α → Bool
  | .panic _ => true
  | _ => false
end Outcome

/-- Generic three-way clamp exactly as `f64::clamp` is written in `core`:
    `if x < lo { lo } else if x > hi { hi } else { x }` (a NaN argument is returned unchanged). -/
def clampS {α : Type} [LT α] [DecidableLT α] (x lo hi : α) : α :=
  if x < lo then lo else if hi < x then hi else x

/-- Generic `max` on the left argument for *finite* inputs: `if x < lo then lo else x`.
    (Rust's `f64::max` differs only on NaN and on the sign of zero, both outside every property's
    quantifier; the correspondence compares zeros by value.) -/
def maxS {α : Type} [LT α] [DecidableLT α] (x lo : α) : α :=
  if x < lo then lo else x

/-- Sum of a list, left fold from `0` exactly as `Iterator::sum` does. -/
def sumS {α : Type} [Add α] [OfNat α 0] (l : List α) : α :=
  l.foldl (· + ·) 0

end Jb
