/-
  Model of `Condition` (src/engine.rs): the 13 settings, their setters/getters and `load_model`.
  Interpolation weights live in `Jb.Model.Weights`.
-/
import Jb.Model.Scalar

namespace Jb

structure Condition (α : Type) where
  samplingFrequency : Nat
  fperiod           : Nat
  volume            : α
  msdThreshold      : List α
  gvWeight          : List α
  alignment         : Bool
  speed             : α
  stage             : Nat
  useLogGain        : Bool
  alpha             : α
  beta              : α
  halfTone          : α
  deriving Repr

section
variable {α : Type} [Add α] [Sub α] [Mul α] [Div α] [OfNat α 0] [OfNat α 1] [NatCast α]
  [LT α] [DecidableLT α] [Transc α] [Consts α]

/-- `1e-6`, the lower bound of the speed setter, as the correctly rounded quotient `1/10^6`. -/
def speedMin : α := (1 : α) / ((1000000 : Nat) : α)

/-- `1/2`, the default MSD threshold. -/
def half : α := (1 : α) / ((2 : Nat) : α)

namespace Condition

/-- `Condition::default()`. -/
def default : Condition α :=
  { samplingFrequency := 0, fperiod := 0, volume := 1, msdThreshold := [], gvWeight := [],
    alignment := false, speed := 1, stage := 0, useLogGain := false, alpha := 0, beta := 0,
    halfTone := 0 }

/-- The part of `load_model` that does not parse option strings: the header's sampling rate, frame
    period and stream count, and the already-parsed spectrum options. -/
def loadModel (c : Condition α) (sr fp nstream : Nat) (stage : Option Nat) (logGain : Option Bool)
    (alpha : Option α) : Condition α :=
  { c with
    samplingFrequency := sr, fperiod := fp,
    msdThreshold := List.replicate nstream half,
    gvWeight := List.replicate nstream 1,
    stage := stage.getD c.stage,
    useLogGain := logGain.getD c.useLogGain,
    alpha := alpha.getD c.alpha }

def setSamplingFrequency (c : Condition α) (i : Nat) : Condition α :=
  { c with samplingFrequency := max i 1 }
def setFperiod (c : Condition α) (i : Nat) : Condition α :=
  { c with fperiod := max i 1 }
def setVolume (c : Condition α) (f : α) : Condition α :=
  { c with volume := Transc.exp (f * Consts.db) }
def getVolume (c : Condition α) : α := Transc.ln c.volume / Consts.db

/-- `self.msd_threshold[i] = f.clamp(0.0, 1.0)`; an out-of-range index panics. -/
def setMsdThreshold (c : Condition α) (i : Nat) (f : α) : Outcome Unit (Condition α) :=
  if i < c.msdThreshold.length then
    .ok { c with msdThreshold := c.msdThreshold.set i (clampS f 0 1) }
  else .panic "engine.rs:msd_threshold[i]"
def setGvWeight (c : Condition α) (i : Nat) (f : α) : Outcome Unit (Condition α) :=
  if i < c.gvWeight.length then
    .ok { c with gvWeight := c.gvWeight.set i (maxS f 0) }
  else .panic "engine.rs:gv_weight[i]"
def setSpeed (c : Condition α) (f : α) : Condition α := { c with speed := maxS f speedMin }
def setAlignment (c : Condition α) (b : Bool) : Condition α := { c with alignment := b }
def setAlpha (c : Condition α) (f : α) : Condition α := { c with alpha := clampS f 0 1 }
def setBeta (c : Condition α) (f : α) : Condition α := { c with beta := clampS f 0 1 }
def setHalfTone (c : Condition α) (f : α) : Condition α := { c with halfTone := f }

end Condition

/-- One setter call, as data (used for histories: C03, C20). -/
inductive CondOp (α : Type) where
  | sf (i : Nat) | fp (i : Nat) | vol (f : α) | msd (i : Nat) (f : α) | gv (i : Nat) (f : α)
  | speed (f : α) | align (b : Bool) | alpha (f : α) | beta (f : α) | ht (f : α)
  deriving Repr

def CondOp.apply (c : Condition α) : CondOp α → Outcome Unit (Condition α)
  | .sf i => .ok (c.setSamplingFrequency i)
  | .fp i => .ok (c.setFperiod i)
  | .vol f => .ok (c.setVolume f)
  | .msd i f => c.setMsdThreshold i f
  | .gv i f => c.setGvWeight i f
  | .speed f => .ok (c.setSpeed f)
  | .align b => .ok (c.setAlignment b)
  | .alpha f => .ok (c.setAlpha f)
  | .beta f => .ok (c.setBeta f)
  | .ht f => .ok (c.setHalfTone f)

/-- Apply a history; an op whose index is out of range is skipped here (the harness never issues
    one — the real call would panic, and `CondOp.apply` says so). -/
def applyHistory (c : Condition α) (ops : List (CondOp α)) : Condition α :=
  ops.foldl (fun c op => match CondOp.apply c op with | .ok c' => c' | _ => c) c

end
end Jb
