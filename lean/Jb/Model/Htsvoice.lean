/-
  Model of the `.htsvoice` reader (src/model/parser/*) and of what a loaded voice means
  (src/model/voice/{model,tree,question}.rs):

    * the file grammar — sections, header key/values, byte ranges, `QS` lines, `{*}[s]` trees,
      PDF blocks (u32 counts, little-endian f32), window rows — following DESIGN.md Appendix E;
    * the guards of the loader: every slice taken from a header range, every node / question
      reference, every data-derived multiplication and the digit accumulation is an explicit site that
      returns `err` when `guarded = true` (the repaired loader) and `panic` when `guarded = false` (the
      pinned commit);
    * `evalTree` — the specification: walk the file's own tree by node id, a question being HTS wildcard
      matching (`glob`) of its patterns against the label text, first child on "no", second on "yes";
    * `convertTree` / `searchNode` — the index form the code builds and walks.

  Everything is on `List Nat` (bytes) / `List Char`; f32 payloads are kept as their 32-bit patterns
  (`UInt32`) so that "bit-equal" is literal; widening to f64 is done by the driver.
-/
import Jb.Model.Scalar

namespace Jb.Hts

/-! ### HTS wildcard matching -/

/-- `*` matches any string, `?` any one character, anything else itself. Structural on the pattern,
    then on the text (no fuel). -/
def glob : List Char → List Char → Bool
  | [], [] => true
  | [], _ :: _ => false
  | '*' :: p, [] => glob p []
  | '*' :: p, c :: s => glob p (c :: s) || glob ('*' :: p) s
  | '?' :: _, [] => false
  | '?' :: p, _ :: s => glob p s
  | _ :: _, [] => false
  | a :: p, c :: s => a == c && glob p s
termination_by p s => (p.length + s.length, p.length)
decreasing_by all_goals simp_wf <;> omega

/-- declarative meaning of a pattern -/
inductive Matches : List Char → List Char → Prop where
  | nil : Matches [] []
  | star_skip {p s} : Matches p s → Matches ('*' :: p) s
  | star_eat {p c s} : Matches ('*' :: p) s → Matches ('*' :: p) (c :: s)
  | any1 {p c s} : Matches p s → Matches ('?' :: p) (c :: s)
  | lit {a p s} : a ≠ '*' → a ≠ '?' → Matches p s → Matches (a :: p) (a :: s)

/-- a question holds iff one of its patterns matches -/
def questionTest (patterns : List (List Char)) (label : List Char) : Bool :=
  patterns.any fun p => glob p label

/-! ### trees -/

inductive Child where
  | node (id : Int)
  | pdf (k : Nat)
  deriving Repr, BEq, DecidableEq

structure Row where
  id : Int
  qname : String
  no : Child
  yes : Child
  deriving Repr

/-- a tree as written in the file -/
structure FileTree where
  state : Nat
  rows : List Row            -- `{ rows }` form; the single-leaf form is one row with `yes = no`
  deriving Repr

abbrev Questions := List (String × List (List Char))

def lookupQ (qs : Questions) (name : String) : Option (List (List Char)) :=
  (qs.find? (·.1 == name)).map (·.2)

def findRow (rows : List Row) (id : Int) : Option Row := rows.find? (·.id == id)

/-- **Specification.** Walk the file's tree from a child reference; `fuel` bounds the number of
    question nodes visited (a tree whose references always point to later rows needs at most
    `rows.length`). `none`: dangling reference, unknown question, or fuel exhausted (cycle). -/
def evalChild (qs : Questions) (rows : List Row) (label : List Char) : Nat → Child → Option Nat
  | _, .pdf k => some k
  | 0, .node _ => none
  | fuel + 1, .node id =>
    match findRow rows id with
    | none => none
    | some r =>
      match lookupQ qs r.qname with
      | none => none
      | some pats => evalChild qs rows label fuel (if questionTest pats label then r.yes else r.no)

def evalTree (qs : Questions) (t : FileTree) (label : List Char) : Option Nat :=
  match t.rows with
  | [] => none
  | r :: _ =>
    if t.rows.length == 1 && r.yes == r.no then
      (match r.yes with | .pdf k => some k | .node _ => none)
    else evalChild qs t.rows label (t.rows.length + 1) (.node r.id)

/-- the code's node table -/
inductive TNode where
  | node (pats : List (List Char)) (yes no : Nat)
  | leaf (pdf : Nat)
  deriving Repr

/-- insertion sort (the code sorts the leaf PDF ids; any sort gives the same multiset order) -/
def insertSorted (x : Nat) : List Nat → List Nat
  | [] => [x]
  | y :: ys => if x ≤ y then x :: y :: ys else y :: insertSorted x ys
def sortNat (l : List Nat) : List Nat := l.foldr insertSorted []

def indexOf? (l : List Nat) (x : Nat) : Option Nat :=
  let rec go (i : Nat) : List Nat → Option Nat
    | [] => none
    | y :: ys => if y == x then some i else go (i + 1) ys
  go 0 l

/-- `convert_tree`. `guarded = false` turns the three `unwrap`s and the `todo!` into panics. -/
def convertTree (guarded : Bool) (qs : Questions) (t : FileTree) : Outcome String (Nat × List TNode) :=
  let fail (what : String) : Outcome String (Nat × List TNode) :=
    if guarded then .err what else .panic ("parser/model/mod.rs:" ++ what)
  match t.rows with
  | [r] =>
    if r.yes == r.no then
      match r.yes with
      | .pdf k => .ok (t.state, [.leaf k])
      | .node _ => fail "single child is a node id"
    else
      convertRows fail t
  | _ => convertRows fail t
where
  convertRows (fail : String → Outcome String (Nat × List TNode)) (t : FileTree) : Outcome String (Nat × List TNode) :=
    let pdfs := sortNat (t.rows.foldl (fun acc r =>
      let acc := match r.yes with | .pdf k => acc ++ [k] | _ => acc
      match r.no with | .pdf k => acc ++ [k] | _ => acc) [])
    let n := t.rows.length
    let ids := t.rows.map (·.id)
    let resolve (c : Child) : Option Nat :=
      match c with
      | .node id => (ids.zip (List.range n)).find? (·.1 == id) |>.map (·.2)
      | .pdf k => (indexOf? pdfs k).map (· + n)
    let step (acc : Outcome String (List TNode)) (r : Row) : Outcome String (List TNode) :=
      match acc with
      | .ok nodes =>
        match resolve r.yes, resolve r.no, lookupQ qs r.qname with
        | some y, some nn, some pats => .ok (nodes ++ [.node pats y nn])
        | none, _, _ => (fail "unknown node reference").map (fun _ => [])
        | _, none, _ => (fail "unknown node reference").map (fun _ => [])
        | _, _, none => (fail "unknown question").map (fun _ => [])
      | e => e
    match t.rows.foldl step (.ok []) with
    | .ok nodes => .ok (t.state, nodes ++ pdfs.map .leaf)
    | .err e => .err e
    | .panic s => .panic s

/-- `Tree::search_node`: `none` when the walk leaves the table (or, here, runs out of fuel — the real
    loop would not terminate on a cyclic table). -/
def searchNode (nodes : List TNode) (label : List Char) : Nat → Nat → Option Nat
  | 0, _ => none
  | fuel + 1, i =>
    match nodes[i]? with
    | none => none
    | some (.leaf k) => some k
    | some (.node pats y n) => searchNode nodes label fuel (if questionTest pats label then y else n)

/-! ### PDFs -/

/-- `ModelParameter::from_linear` on bit patterns: means | variances | optional MSD weight -/
structure PdfBits where
  means : List UInt32
  varis : List UInt32
  msd : Option UInt32
  deriving Repr, BEq

def fromLinear (lin : List UInt32) : PdfBits :=
  let len := lin.length / 2
  { means := lin.take len, varis := (lin.drop len).take len, msd := lin[len * 2]? }

/-- a parsed model: questions, trees as written, and per tree the PDFs -/
structure FileModel where
  questions : Questions
  trees : List FileTree
  pdfs : List (List PdfBits)
  deriving Repr

/-- `Model::get_index` + `get_parameter` on the specification side: the tree whose state is
    `stateIndex` (the first one if none — as the code falls back), the PDF id its walk selects, and
    entry `id − 1` of that tree's PDF list. `none` is the code's `todo!("index not found!")` / index
    panic at synthesis time. -/
def getParameter (m : FileModel) (stateIndex : Nat) (label : List Char) : Option (Nat × Nat × PdfBits) :=
  let idx := (m.trees.zip (List.range m.trees.length)).find? (·.1.state == stateIndex) |>.map (·.2)
  match idx with
  | none => none
  | some ti =>
    match m.trees[ti]? with
    | none => none
    | some t =>
      match evalTree m.questions t label with
      | none => none
      | some k =>
        if k = 0 then none else
        match (m.pdfs[ti]?).bind (·[k - 1]?) with
        | none => none
        | some p => some (ti + 2, k, p)

/-! ### little-endian decoding -/

def u32le (b : List Nat) : UInt32 :=
  (b.getD 0 0).toUInt32 ||| ((b.getD 1 0).toUInt32 <<< 8) ||| ((b.getD 2 0).toUInt32 <<< 16) ||| ((b.getD 3 0).toUInt32 <<< 24)

/-- split a byte list into 4-byte words (`none` if the length is not a multiple of 4) -/
def words : List Nat → Option (List UInt32)
  | [] => some []
  | a :: b :: c :: d :: rest => (words rest).map (u32le [a, b, c, d] :: ·)
  | _ => none

/-- the PDF block: `ntree` u32 counts, then per tree `count × pdfLen` f32, consumed exactly -/
def parsePdfBlock (bytes : List Nat) (ntree pdfLen : Nat) : Option (List (List PdfBits)) :=
  match words bytes with
  | none => none
  | some ws =>
    if ws.length < ntree then none else
    let counts := (ws.take ntree).map (·.toNat)
    let body := ws.drop ntree
    let rec go (counts : List Nat) (body : List UInt32) : Option (List (List PdfBits)) :=
      match counts with
      | [] => if body.isEmpty then some [] else none
      | n :: rest =>
        if body.length < n * pdfLen then none else
        let chunk := body.take (n * pdfLen)
        let pdfs := (List.range n).map fun i => fromLinear ((chunk.drop (i * pdfLen)).take pdfLen)
        (go rest (body.drop (n * pdfLen))).map (pdfs :: ·)
    go counts body

end Jb.Hts
