/-
  Abstract model of sharing one engine between callers (C03): every synthesis / generator is a
  call-local state machine that *reads* the engine value and writes only its own state.
-/
import Jb.Model.Condition

namespace Jb

/-- Run an interleaving `sched` (a list of caller indices chosen by the scheduler) of `k` call-local
    machines over one shared, read-only environment `env`. Returns the final local states and the
    outputs tagged with the caller that produced them. -/
def interleave {E S O : Type} (step : E → S → S × O) (env : E) : List S → List Nat → List S × List (Nat × O)
  | sts, [] => (sts, [])
  | sts, i :: rest =>
    match sts[i]? with
    | none => interleave step env sts rest
    | some s =>
      let r := step env s
      let t := interleave step env (sts.set i r.1) rest
      (t.1, (i, r.2) :: t.2)

/-- caller `i` running alone for `n` steps -/
def runAlone {E S O : Type} (step : E → S → S × O) (env : E) : S → Nat → S × List O
  | s, 0 => (s, [])
  | s, n + 1 =>
    let r := step env s
    let t := runAlone step env r.1 n
    (t.1, r.2 :: t.2)

/-- which setting a setter call writes: (kind, stream index) -/
def CondOp.key {α : Type} : CondOp α → Nat × Nat
  | .sf _ => (0, 0) | .fp _ => (1, 0) | .vol _ => (2, 0) | .msd i _ => (3, i) | .gv i _ => (4, i)
  | .speed _ => (5, 0) | .align _ => (6, 0) | .alpha _ => (7, 0) | .beta _ => (8, 0) | .ht _ => (9, 0)

/-- the last call on each setting, in first-occurrence order of the settings (a canonical history) -/
def lastCalls {α : Type} : List (CondOp α) → List (CondOp α)
  | [] => []
  | op :: rest =>
    if rest.any (fun o => o.key == op.key) then lastCalls rest else op :: lastCalls rest

end Jb
