/-
  A COMPUTABLE acceptance check on a parsed voice: what has to hold, beyond "the reader accepted the file"
  (`parseVoice true bytes = .ok v`), for synthesis from the voice to be total.  The reader does not check any of it
  (Jb/Proofs/ParseShape.lean, N1..N8); `Jb/Proofs/Supported.lean` proves that the check is enough
  (`accepted_supported_voicesWF`, `bytes_synth_total`).

    * `treeOk npdf t`         — the tree has a row, row ids are pairwise distinct, every node reference points to a
                                LATER row (no cycle, no dangling reference), every leaf PDF id is in `1 .. npdf`;
    * `modelOk states m`      — for every state index in `states`: the tree `getParameter` picks for it (the first tree
                                with that state) exists, owns a PDF list, and is `treeOk` for the length of that list;
    * `supportedVoice v`      — header numbers the pipeline relies on, `#STREAM_WIN ≤ NUM_WINDOWS`, and `modelOk` for the
                                duration model (state 2), every stream model (states `2 .. nstates+1`) and every GV model
                                that is used (state 2);
    * `compatibleVoice v0 v`  — the metadata comparison of `VoiceSet::new`, as far as interpolation needs it.

  Import-free of Mathlib/Batteries (this file is linked into the compiled driver); everything is a plain `Bool`
  function, structurally recursive where it recurses.
-/
import Jb.Model.HtsParse

namespace Jb.Hts

/-- a child reference of a row whose later rows are `later`: a node id must be the id of a later row, a PDF id must be
    in `1 .. npdf` -/
def childOk (npdf : Nat) (later : List Row) : Child → Bool
  | .node id => later.any (fun r => r.id == id)
  | .pdf k => decide (1 ≤ k) && decide (k ≤ npdf)

/-- every row: its id does not occur again later, and both children are `childOk` w.r.t. the later rows -/
def rowsOk (npdf : Nat) : List Row → Bool
  | [] => true
  | r :: rest =>
    !(rest.any (fun r' => r'.id == r.id)) && childOk npdf rest r.yes && childOk npdf rest r.no && rowsOk npdf rest

/-- rows non-empty; row ids pairwise distinct; every `.node id` child of row `i` is the id of some row `j > i`;
    every `.pdf k` child has `1 ≤ k ≤ npdf` -/
def treeOk (npdf : Nat) (t : FileTree) : Bool :=
  !t.rows.isEmpty && rowsOk npdf t.rows

/-- the tree `getParameter m k` picks (same expression: the first tree whose state is `k`) exists, has a PDF list,
    and is `treeOk` for the length of that list -/
def stateOk (m : FileModel) (k : Nat) : Bool :=
  match ((m.trees.zip (List.range m.trees.length)).find? (fun x => x.1.state == k)).map (fun x => x.2) with
  | none => false
  | some ti =>
    match m.trees[ti]?, m.pdfs[ti]? with
    | some t, some ps => treeOk ps.length t
    | _, _ => false

def modelOk (states : List Nat) (m : FileModel) : Bool :=
  states.all (stateOk m)

/-- the state indices a stream model is asked for: `2, …, nstates + 1` -/
def stateIndices (nstates : Nat) : List Nat := (List.range nstates).map (fun k => k + 2)

/-- one stream: `1 ≤ #STREAM_WIN ≤ NUM_WINDOWS`, total trees for every state, and a total GV model if GV is used -/
def streamOk (nstates : Nat) (s : ParsedStream) : Bool :=
  decide (1 ≤ s.windows.length) && decide (s.windows.length ≤ s.info.nwin) &&
  modelOk (stateIndices nstates) s.model &&
  (if s.info.useGv then
    (match s.gv with
     | some g => modelOk [2] g
     | none => false)
   else true)

def supportedVoice (v : ParsedVoice) : Bool :=
  decide (0 < v.global.nstates) &&
  (v.global.nstreams == 2 || v.global.nstreams == 3) &&
  (v.streams.length == v.global.nstreams) &&
  (match v.streams[1]? with
   | some s => s.info.veclen == 1
   | none => false) &&
  (match v.streams[2]? with
   | some s => s.info.veclen % 2 == 1
   | none => true) &&
  modelOk [2] v.duration &&
  v.streams.all (streamOk v.global.nstates)

/-- per-stream metadata `VoiceSet::new` compares -/
def streamCompatible (a b : ParsedStream) : Bool :=
  (a.info.useGv == b.info.useGv) && (a.info.veclen == b.info.veclen) &&
  (a.info.isMsd == b.info.isMsd) && (a.info.nwin == b.info.nwin)

/-- `VoiceSet::new`'s comparison of a voice `v` with the first voice `v0` (the part totality needs, plus
    `veclen` / `isMsd` / `nwin`) -/
def compatibleVoice (v0 v : ParsedVoice) : Bool :=
  (v0.global.nstates == v.global.nstates) && (v0.global.nstreams == v.global.nstreams) &&
  (v0.streams.length == v.streams.length) &&
  (v0.streams.zip v.streams).all (fun p => streamCompatible p.1 p.2)

end Jb.Hts
