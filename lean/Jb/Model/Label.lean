/-
  Model of `Labels::load_from_strings` (src/label.rs): the line grammar, with the two external parsers
  (`str::parse::<f64>`, `jlabel::Label::from_str`) as parameters. Lines are byte lists.
-/
import Jb.Model.Duration

namespace Jb

inductive LabelError where
  | jlabelParse
  | missingLabel
  | floatParse
  | lengthMismatch
  deriving Repr, BEq, DecidableEq

/-- `s.splitn(2, ' ')` on bytes: the part before the first space and, if there is a space, the rest -/
def splitFirst : List Nat → List Nat × Option (List Nat)
  | [] => ([], none)
  | c :: cs =>
    if c = 32 then ([], some cs)
    else
      let (a, r) := splitFirst cs
      (c :: a, r)

/-- `line.splitn(3, ' ')`: at most three pieces, always at least one -/
def splitn3 (line : List Nat) : List (List Nat) :=
  match splitFirst line with
  | (a, none) => [a]
  | (a, some rest) =>
    match splitFirst rest with
    | (b, none) => [a, b]
    | (b, some rest2) => [a, b, rest2]

section
variable {α L : Type} [Mul α] [Neg α] [OfNat α 1]

/-- One line: `none` = blank line (skipped); otherwise the label and its (start, end) in frames. -/
def loadLine (parseF : List Nat → Option α) (parseL : List Nat → Option L) (rate : α) (line : List Nat) :
    Except LabelError (Option (L × (α × α))) :=
  match splitn3 line with
  | [first] =>
    if first.isEmpty then .ok none
    else match parseL first with
      | some l => .ok (some (l, (-1, -1)))
      | none => .error .jlabelParse
  | [_, _] => .error .missingLabel
  | [first, second, third] =>
    match parseF first with
    | none => .error .floatParse
    | some s =>
      match parseF second with
      | none => .error .floatParse
      | some e =>
        match parseL third with
        | none => .error .jlabelParse
        | some l => .ok (some (l, (s * rate, e * rate)))
  | _ => .ok none   -- unreachable: `splitn3` returns 1..3 pieces

/-- All lines, first error wins. Returns labels and raw (unfilled) times. -/
def loadLines (parseF : List Nat → Option α) (parseL : List Nat → Option L) (rate : α) :
    List (List Nat) → Except LabelError (List (L × (α × α)))
  | [] => .ok []
  | line :: rest =>
    match loadLine parseF parseL rate line with
    | .error e => .error e
    | .ok none => loadLines parseF parseL rate rest
    | .ok (some x) =>
      match loadLines parseF parseL rate rest with
      | .error e => .error e
      | .ok xs => .ok (x :: xs)

end
end Jb
