/-
  Model of `src/mlpg_adjust/{mod,mask,mlpg}.rs`: state expansion, MSD mask, boundary distances,
  precision assembly, W'U⁻¹W / W'U⁻¹μ, banded LDLᵀ, substitutions, global variance (5 steps),
  and `apply_additional_half_tone` (src/model/stream_parameter.rs).
-/
import Jb.Model.Duration

namespace Jb

/-- Non-rational constants of `MeanVari::with_ivar` and the GV iteration. -/
class MlpgConsts (α : Type) where
  ivarHi  : α   -- 1e19
  ivarLo  : α   -- 1e-19
  ivarMax : α   -- 1e38

instance : MlpgConsts Float where
  ivarHi := 1e19
  ivarLo := 1e-19
  ivarMax := 1e38

/-- One state of a stream: its Gaussians (`nwin · veclen`, window-major) and its MSD weight. -/
structure StateParam (α : Type) where
  params : List (MeanVari α)
  msd : α
  deriving Repr

/-- `ModelStream` as handed to `MlpgAdjust::new`. -/
structure StreamIn (α : Type) where
  vectorLength : Nat
  stream : List (StateParam α)
  gv : Option (List (MeanVari α) × List Bool)
  windows : List (List α)
  deriving Repr

section
variable {α : Type} [Add α] [Sub α] [Mul α] [Div α] [Neg α] [OfNat α 0] [OfNat α 1] [NatCast α]
  [LT α] [DecidableLT α] [LE α] [DecidableLE α] [Transc α] [Consts α] [MlpgConsts α]

/-- `.duration(durations)`: item `k` repeated `durations[k]` times (zip-truncated). -/
def expand {β : Type} (xs : List β) (durs : List Nat) : List β :=
  (xs.zip durs).flatMap fun (x, d) => List.replicate d x

/-- `Mask::create`: a frame is voiced iff its state's MSD weight exceeds the threshold. -/
def maskCreate (stream : List (StateParam α)) (thr : α) (durs : List Nat) : List Bool :=
  expand (stream.map fun s => decide (thr < s.msd)) durs

/-- left boundary distances, scanning with the index of the first frame of the current voiced run -/
def leftDists : List Bool → Nat → Nat → List Nat
  | [], _, _ => []
  | true :: r, f, l => (f - l) :: leftDists r (f + 1) l
  | false :: r, f, _ => 0 :: leftDists r (f + 1) (f + 1)

/-- `Mask::boundary_distances` -/
def boundaryDistances (mask : List Bool) : List (Nat × Nat) :=
  (leftDists mask 0 0).zip (leftDists mask.reverse 0 0).reverse

/-- `.filter_by(mask)` -/
def filterBy {β : Type} (xs : List β) (mask : List Bool) : List β :=
  ((xs.zip mask).filter (·.2)).map (·.1)

/-- `Mask::fill(masked, default)`; `none` is the `expect` panic (too few masked values). -/
def maskFill {β : Type} (mask : List Bool) (masked : List β) (dflt : β) : Option (List β) :=
  match mask, masked with
  | [], _ => some []
  | true :: ms, x :: xs => (maskFill ms xs dflt).map (x :: ·)
  | true :: _, [] => none
  | false :: ms, xs => (maskFill ms xs dflt).map (dflt :: ·)

/-- `MeanVari::with_ivar` -/
def withIvar (p : MeanVari α) : MeanVari α :=
  let a := absS p.vari
  ⟨p.mean, if MlpgConsts.ivarHi < a then 0 else if a < MlpgConsts.ivarLo then MlpgConsts.ivarMax else 1 / p.vari⟩

def isZero (c : α) : Bool := !(decide (c < 0)) && !(decide (0 < c)) && decide (c ≤ c)

/-- The observation sequence of one window for one vector index: per voiced frame the (mean,
    precision) of that window's dynamic feature; the precision is zeroed when the window's span leaves
    the voiced segment (dynamic windows only). -/
def windowParams (veclen : Nat) (stream : List (StateParam α)) (durs : List Nat) (mask : List Bool)
    (bd : List (Nat × Nat)) (wi : Nat) (win : List α) (m : Nat) : List (MeanVari α) :=
  let idx := veclen * wi + m
  let lw := win.length / 2
  let rw := win.length - lw - 1
  let perFrame := expand (stream.map fun s => withIvar (s.params.getD idx ⟨0, 0⟩)) durs
  let adj := (perFrame.zip bd).map fun (mv, (l, r)) =>
    if (l < lw ∨ r < rw) ∧ wi ≠ 0 then (⟨mv.mean, 0⟩ : MeanVari α) else mv
  filterBy adj mask

/-- one row `t` of `calc_wuw_and_wum`, returning `(wuw[t], wum[t])`.
    `obs[i]` is the observation sequence of window `i` as a list (indexed by voiced frame). -/
def wuwRow (windows : List (List α)) (obs : List (List (MeanVari α))) (length width t : Nat) :
    List α × α :=
  let step (acc : List α × α) (wo : List α × List (MeanVari α)) : List α × α :=
    let (win, ob) := wo
    let w := win.length
    let half := w / 2
    -- `for (index, coef) in window.iter_rev(0)` : k = w-1 … 0
    (List.range w).reverse.foldl (fun (acc : List α × α) k =>
      let coef := win.getD k 0
      if isZero coef then acc
      else
        -- idx = t - (k - half)
        if t + half < k then acc            -- idx < 0
        else
          let idx := t + half - k
          if length ≤ idx then acc
          else
            let mv := ob.getD idx ⟨0, 0⟩
            let wu := coef * mv.vari
            let wum' := acc.2 + wu * mv.mean
            -- inner loop: k2 = w-1 … k, `break` at the first j with t + j ≥ length
            let rec inner (k2s : List Nat) (row : List α) : List α :=
              match k2s with
              | [] => row
              | k2 :: rest =>
                let c2 := win.getD k2 0
                if isZero c2 then inner rest row
                else
                  let j := k2 - k
                  if length ≤ t + j then row
                  else inner rest (row.set j (row.getD j 0 + wu * c2))
            let row' := inner ((List.range (w - k)).reverse.map (· + k)) acc.1
            (row', wum')) acc
  (windows.zip obs).foldl step (List.replicate width 0, 0)

/-- `MlpgMatrix` : banded storage, `wuw[t][j] = A[t][t+j]`. -/
structure MlpgMatrix (α : Type) where
  winSize : Nat
  length : Nat
  width : Nat
  wuw : List (List α)
  wum : List α
  deriving Repr

def maxWidth (windows : List (List α)) : Nat :=
  (windows.foldl (fun m w => max m w.length) 0) / 2

/-- `calc_wuw_and_wum`; `none` is the `parameters[0]` panic (no window). -/
def calcWuwWum (windows : List (List α)) (obs : List (List (MeanVari α))) : Option (MlpgMatrix α) :=
  match obs with
  | [] => none
  | o0 :: _ =>
    let length := o0.length
    let width := maxWidth windows * 2 + 1
    let rows := (List.range length).map fun t => wuwRow windows obs length width t
    some { winSize := windows.length, length, width, wuw := rows.map (·.1), wum := rows.map (·.2) }

/-- One row of the in-place LDLᵀ factorisation. `prev` holds the already factorised rows, most
    recent first (`prev[i-1]` is row `t-i`); `row` is the unfactorised row `t`. -/
def ldlRow (width : Nat) (prev : List (List α)) (row : List α) : List α :=
  let t1 := prev.length + 1            -- t + 1
  -- d = a[t][0] − Σ_{i=1}^{min(width,t+1)-1} l(t−i,i)² d(t−i)
  let d := (List.range (min width t1 - 1)).foldl (fun acc i0 =>
      let i := i0 + 1
      let r := prev.getD i0 []
      acc - r.getD i 0 * r.getD i 0 * r.getD 0 0) (row.getD 0 0)
  let rest := (List.range (width - 1)).map fun i0 =>
    let i := i0 + 1
    let v := (List.range (min (width - i) t1 - 1)).foldl (fun acc j0 =>
        let j := j0 + 1
        let r := prev.getD j0 []
        acc - r.getD j 0 * r.getD (i + j) 0 * r.getD 0 0) (row.getD i 0)
    v / d
  d :: rest

/-- `ldl_factorization`: all rows, in order. -/
def ldlRows (width : Nat) (rows : List (List α)) : List (List α) :=
  (rows.foldl (fun (prev : List (List α)) row => ldlRow width prev row :: prev) []).reverse

/-- forward substitution `g[t] = r[t] − Σ_{i=1}^{min(width,t+1)-1} l(t−i,i) g(t−i)` -/
def forwardSub (width : Nat) (lrows : List (List α)) (r : List α) : List α :=
  let step (st : List (List α) × List α) (x : List α × α) : List (List α) × List α :=
    -- st.1 : previous factor rows (most recent first), st.2 : previous g (most recent first)
    let (prevRows, prevG) := st
    let t1 := prevG.length + 1
    let g := (List.range (min width t1 - 1)).foldl (fun acc i0 =>
        acc - (prevRows.getD i0 []).getD (i0 + 1) 0 * prevG.getD i0 0) x.2
    (x.1 :: prevRows, g :: prevG)
  ((lrows.zip r).foldl step ([], [])).2.reverse

/-- backward substitution `c[t] = g[t]/d[t] − Σ_{i=1}^{min(width,T−t)-1} l(t,i) c(t+i)` -/
def backwardSub (width : Nat) (lrows : List (List α)) (g : List α) : List α :=
  (lrows.zip g).foldr (fun (x : List α × α) (acc : List α) =>
      let c := (List.range (min width (acc.length + 1) - 1)).foldl (fun a i0 =>
          a - x.1.getD (i0 + 1) 0 * acc.getD i0 0) (x.2 / x.1.getD 0 0)
      c :: acc) []

/-- `MlpgMatrix::solve` -/
def MlpgMatrix.solve (m : MlpgMatrix α) : List α :=
  let l := ldlRows m.width m.wuw
  backwardSub m.width l (forwardSub m.width l m.wum)

/-! ### global variance -/

/-- `calc_gv`: mean and variance over the eligible (switch = true) entries -/
def calcGv (par : List α) (sw : List Bool) (gvLen : Nat) : α × α :=
  let el := filterBy par sw
  let mean := sumS el / (gvLen : α)
  let vari := sumS (el.map fun p => (p - mean) * (p - mean)) / (gvLen : α)
  (mean, vari)

/-- `conv_gv` -/
def convGv (par : List α) (sw : List Bool) (gvLen : Nat) (gvMean : α) : List α :=
  let (mean, vari) := calcGv par sw gvLen
  -- repaired: a trajectory that is constant over the eligible frames (zero variance) is left alone;
  -- the pinned commit divided by the zero variance and produced NaN in every eligible frame
  if ¬ (0 < vari) then par
  else
    let ratio := Transc.sqrt (gvMean / vari)
    (par.zip sw).map fun (p, s) => if s then ratio * (p - mean) + mean else p

/-- shift a list right by `i` (entries falling off are dropped, zeros enter) / left by `i` -/
def shiftRight (i : Nat) (l : List α) : List α := (List.replicate i 0 ++ l).take l.length
def shiftLeft (i : Nat) (l : List α) : List α := l.drop i ++ List.replicate (min i l.length) 0

/-- `calc_hmmobj_derivative`: `g = A·par` from the banded storage, and the HMM objective. -/
def hmmobjDerivative (m : MlpgMatrix α) (par : List α) : α × List α :=
  let col (i : Nat) : List α := m.wuw.map fun r => r.getD i 0
  let g0 := (col 0).zip par |>.map fun (a, p) => a * p
  let g := (List.range (m.width - 1)).foldl (fun (g : List α) i0 =>
      let i := i0 + 1
      -- forward: wuw[t][i] * par[t+i] when t+i < length ; backward: wuw[t-i][i] * par[t-i] when t ≥ i
      let fwd := ((col i).zip (shiftLeft i par)).map fun (a, p) => a * p
      let fwd := fwd.take (m.length - i) ++ List.replicate (min i m.length) 0
      let bwd := shiftRight i (((col i).zip par).map fun (a, p) => a * p)
      (g.zip (fwd.zip bwd)).map fun (x, (f, b)) => x + f + b) g0
  let w : α := 1 / ((m.winSize * m.length : Nat) : α)
  let half : α := 1 / ((2 : Nat) : α)
  let hmmobj := ((par.zip (m.wum.zip g)).foldl (fun acc (p, (r, gt)) => acc + 1 * w * p * (r - half * gt)) 0)
  (hmmobj, g)

/-- `next_step` -/
def gvNextStep (m : MlpgMatrix α) (par : List α) (sw : List Bool) (g : List α) (step mean vari gvMean gvVari : α) :
    List α :=
  let length := m.length
  let two : α := ((2 : Nat) : α)
  let w : α := 1 / ((m.winSize * length : Nat) : α)
  let dv := -two * gvVari * (vari - gvMean) / (length : α)
  let d0 := m.wuw.map fun r => r.getD 0 0
  ((par.zip sw).zip (g.zip (m.wum.zip d0))).map fun ((p, s), (gt, (r, a0))) =>
    let h := -(1 : α) * w * a0
      - 1 * two / ((length * length : Nat) : α)
        * (((length - 1 : Nat) : α) * gvVari * (vari - gvMean) + two * gvVari * (p - mean) * (p - mean))
    let nextG := if s then 1 / h * (1 * w * (-gt + r) + 1 * dv * (p - mean))
                 else 1 / h * (1 * w * (-gt + r))
    p + step * nextG

/-- `parmgen` : `conv_gv` then five Newton-like steps with the adaptive step size. -/
def gvParmgen (m : MlpgMatrix α) (par : List α) (sw : List Bool) (gvMean gvVari : α) : List α :=
  let gvLen := (sw.filter id).length
  if gvLen = 0 then par
  else
    let half : α := 1 / ((2 : Nat) : α)
    let stepInit : α := 1 / ((10 : Nat) : α)
    let stepDec : α := half
    let stepInc : α := ((12 : Nat) : α) / ((10 : Nat) : α)
    let par0 := convGv par sw gvLen gvMean
    let rec loop (i : Nat) (fuel : Nat) (par : List α) (step prev : α) : List α :=
      match fuel with
      | 0 => par
      | fuel + 1 =>
        let (mean, vari) := calcGv par sw gvLen
        let gvobj := -half * 1 * vari * gvVari * (vari - ((2 : Nat) : α) * gvMean)
        let (hmmobj, g) := hmmobjDerivative m par
        let obj := -(hmmobj + gvobj)
        let step' := if i > 1 then (if prev < obj then step * stepDec else if obj < prev then step * stepInc else step) else step
        let par' := gvNextStep m par sw g step' mean vari gvMean gvVari
        loop (i + 1) fuel par' step' obj
    loop 1 5 par0 stepInit 0

/-- `MlpgMatrix::par` -/
def MlpgMatrix.par (m : MlpgMatrix α) (gv : Option (List (MeanVari α) × List Bool)) (vectorIndex : Nat)
    (gvWeight : α) (durs : List Nat) (mask : List Bool) : List α :=
  match gv with
  | some (gvParam, gvSwitch) =>
    let par := m.solve
    let sw := filterBy (expand gvSwitch durs) mask
    let mv := gvParam.getD vectorIndex ⟨0, 0⟩
    gvParmgen m par sw (mv.mean * gvWeight) mv.vari
  | none => m.solve

/-- `MlpgAdjust::create(durations)`: `T × vector_length` trajectory, `NODATA` on unvoiced frames.
    Panic sites: a state with fewer Gaussians than `nwin·veclen` (`curr_stream[m]`), no window
    (`parameters[0]`). -/
def mlpgCreate (gvWeight thr : α) (s : StreamIn α) (durs : List Nat) : Outcome Unit (List (List α)) :=
  let mask := maskCreate s.stream thr durs
  let bd := boundaryDistances mask
  let nwin := s.windows.length
  let need := s.vectorLength * nwin
  let used := (s.stream.zip durs).map (·.1)
  if s.vectorLength > 0 ∧ nwin > 0 ∧ used.any (fun st => decide (st.params.length < need)) then
    .panic "mlpg_adjust/mod.rs:curr_stream[m]"
  else if s.vectorLength > 0 ∧ nwin = 0 then .panic "mlpg.rs:parameters[0]"
  else
    let cols : List (Option (List α)) := (List.range s.vectorLength).map fun m =>
      let obs := (List.range nwin).zip s.windows |>.map fun (wi, win) =>
        windowParams s.vectorLength s.stream durs mask bd wi win m
      match calcWuwWum s.windows obs with
      | none => none
      | some mtx =>
        let par := mtx.par s.gv m gvWeight durs mask
        maskFill mask par Consts.nodata
    if cols.any Option.isNone then .panic "mask.rs:fill expect"
    else
      let cols' := cols.map fun c => c.getD []
      -- transpose: frame-major
      .ok ((List.range mask.length).map fun t => cols'.map fun c => c.getD t 0)

/-- `StreamParameter::apply_additional_half_tone` -/
def applyHalfTone (stream : List (StateParam α)) (h : α) : List (StateParam α) :=
  if isZero h then stream
  else stream.map fun s =>
    match s.params with
    | [] => s    -- `p[0]` would panic; log-F0 states always have a static Gaussian
    | p :: rest => { s with params := ⟨clampS (p.mean + h * Consts.halfTone) Consts.minLf0 Consts.maxLf0, p.vari⟩ :: rest }

end
end Jb
