/-
  Model of `Engine::generator` / `Engine::synthesize` (src/engine.rs) as the composition of the stage
  models: durations → per-stream MLPG (threshold and GV weight of *that* stream; additional half tone
  on stream 1 only) → SpeechGenerator over the vocoder model.

  The inputs are what `Models::{duration, model_stream}` hand to the stages (tree selection and voice
  interpolation are modelled separately: `Jb/Model/Htsvoice.lean`, `Jb/Model/Weights.lean`).
-/
import Jb.Model.Condition
import Jb.Model.Duration
import Jb.Model.Mlpg
import Jb.Model.Vocoder
import Jb.Model.Speech

namespace Jb

/-- What `Engine::generator` reads besides the condition. -/
structure EngineIn (α : Type) where
  nstate : Nat
  nstream : Nat
  duration : List (MeanVari α)
  streams : List (StreamIn α)          -- one per stream, `nstream` of them
  times : List (α × α)                 -- `Labels::times()`, in frames
  deriving Repr

section
variable {α : Type} [Add α] [Sub α] [Mul α] [Div α] [Neg α] [OfNat α 0] [OfNat α 1] [NatCast α]
  [LT α] [DecidableLT α] [LE α] [DecidableLE α] [Transc α] [Consts α] [MlpgConsts α] [RoundNat α]

/-- the state durations chosen by `Engine::generator` -/
def engineDurations (c : Condition α) (speedIsOne : Bool) (inp : EngineIn α) : Outcome Unit (List Nat) :=
  if c.alignment then createWithAlignment true inp.duration inp.nstate inp.times
  else durationCreate inp.duration c.speed speedIsOne

/-- trajectory of stream `i`: its own threshold, its own GV weight; half tone on stream 1 only -/
def engineStream (c : Condition α) (inp : EngineIn α) (durs : List Nat) (i : Nat) : Outcome Unit (List (List α)) :=
  match inp.streams[i]?, c.gvWeight[i]?, c.msdThreshold[i]? with
  | some s, some gw, some thr =>
    let s := if i = 1 then { s with stream := applyHalfTone s.stream c.halfTone } else s
    mlpgCreate gw thr s durs
  | _, _, _ => .panic "engine.rs:stream / gv_weight / msd_threshold index"

structure GenParams (α : Type) where
  durations : List Nat
  spectrum : List (List α)
  lf0 : List (List α)
  lpf : List (List α)

/-- `Engine::generator` up to the construction of the `SpeechGenerator` -/
def engineParams (c : Condition α) (speedIsOne : Bool) (inp : EngineIn α) : Outcome Unit (GenParams α) :=
  match engineDurations c speedIsOne inp with
  | .ok durs =>
    match engineStream c inp durs 0, engineStream c inp durs 1 with
    | .ok sp, .ok lf0 =>
      if inp.nstream > 2 then
        match engineStream c inp durs 2 with
        | .ok lpf => .ok ⟨durs, sp, lf0, lpf⟩
        | .err e => .err e
        | .panic s => .panic s
      else .ok ⟨durs, sp, lf0, lf0.map fun _ => []⟩
    | .panic s, _ => .panic s
    | _, .panic s => .panic s
    | _, _ => .panic "err"
  | .err e => .err e
  | .panic s => .panic s

/-- the checks of `SpeechGenerator::new` (three panics) -/
def speechGeneratorNewOk (p : GenParams α) : Bool :=
  p.spectrum.length == p.lf0.length && p.spectrum.length == p.lpf.length &&
  (match p.lf0 with | [] => true | f :: _ => f.length == 1) &&
  (match p.lpf with | [] => true | f :: _ => f.isEmpty || f.length % 2 == 1)

/-- one vocoder frame as the abstract `synth` of `Jb/Model/Speech.lean`. `Engine::generator` builds the
    vocoder and the generator with the same `condition.fperiod`; the model makes that explicit by
    running the frame at the generator's frame period `fp`. -/
def vocoderFrame (fx : Fix) (fp : Nat) (v : VocoderSt α) (f : List α × List α × List α) : VocoderSt α × List α :=
  let r := vocoderSynth fx { v with fperiod := fp } (f.2.1.getD 0 0) f.1 f.2.2
  (r.2, r.1)

/-- `Engine::synthesize` -/
def engineSynthesize (fx : Fix) (c : Condition α) (speedIsOne : Bool) (inp : EngineIn α) : Outcome Unit (List α) :=
  match engineParams c speedIsOne inp with
  | .ok p =>
    if !speechGeneratorNewOk p then .panic "speech.rs:SpeechGenerator::new"
    else
      let nmcp := (inp.streams[0]?.map (·.vectorLength)).getD 0
      let nlpf := if inp.nstream > 2 then (inp.streams[2]?.map (·.vectorLength)).getD 0 else 0
      let v0 : VocoderSt α := VocoderSt.new nmcp nlpf c.stage c.useLogGain c.samplingFrequency c.alpha c.beta c.volume c.fperiod
      let frames := (p.spectrum.zip (p.lf0.zip p.lpf))
      let g : Gen (VocoderSt α) (List α × List α × List α) := { fperiod := c.fperiod, frames, next := 0, voc := v0 }
      Gen.finish (vocoderFrame fx c.fperiod) true g
  | .err e => .err e
  | .panic s => .panic s

end
end Jb
