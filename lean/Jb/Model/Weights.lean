/-
  Model of `src/model/interporation_weight.rs` (Weights, InterporationWeight), of
  `VoiceSet::new` / `VoiceSet::weighted` (src/model/voice_set.rs) and of `ModelParameter::{mul,
  mul_add_assign}` (src/model/voice/model.rs).
-/
import Jb.Model.Duration

namespace Jb

inductive WeightError where
  | invalidSum
  | invalidLength (expected got : Nat)
  deriving Repr, BEq, DecidableEq

inductive ModelError where
  | emptyVoice
  | metadataError
  deriving Repr, BEq, DecidableEq

structure ModelParameter (α : Type) where
  parameters : List (MeanVari α)
  msd : Option α
  deriving Repr

structure IW (α : Type) where
  nvoices   : Nat
  duration  : List α
  parameter : List (List α)
  gv        : List (List α)
  deriving Repr

section
variable {α : Type} [Add α] [Sub α] [Mul α] [Div α] [OfNat α 0] [OfNat α 1] [NatCast α]
  [LT α] [DecidableLT α] [LE α] [DecidableLE α]

/-- `approx::abs_diff_eq!(a, b, epsilon = eps)`: `(if a > b {a - b} else {b - a}) <= eps`. -/
def absDiffEq (a b eps : α) : Bool := decide ((if b < a then a - b else b - a) ≤ eps)

/-- `Weights::new`: accepted iff the sum (left fold from 0) is within `eps` of 1. -/
def weightsNew (eps : α) (w : List α) : Except WeightError (List α) :=
  if absDiffEq (sumS w) 1 eps then .ok w else .error .invalidSum

/-- `check_length` -/
def checkLength (w : List α) (n : Nat) : Except WeightError Unit :=
  if w.length ≠ n then .error (.invalidLength n w.length) else .ok ()

namespace IW

/-- `InterporationWeight::new(nvoices, nstream)`: equal weights `1/nvoices`. -/
def new (nvoices nstream : Nat) : IW α :=
  let avg : List α := List.replicate nvoices ((1 : α) / (nvoices : α))
  { nvoices, duration := avg, parameter := List.replicate nstream avg, gv := List.replicate nstream avg }

/-- validation shared by the three setters, in the code's order: sum first, then length -/
def validate (eps : α) (iw : IW α) (w : List α) : Except WeightError (List α) :=
  match weightsNew eps w with
  | .error e => .error e
  | .ok w' => match checkLength w' iw.nvoices with
    | .error e => .error e
    | .ok () => .ok w'

def setDuration (eps : α) (iw : IW α) (w : List α) : Outcome WeightError (IW α) :=
  match validate eps iw w with
  | .error e => .err e
  | .ok w' => .ok { iw with duration := w' }

def setParameter (eps : α) (iw : IW α) (i : Nat) (w : List α) : Outcome WeightError (IW α) :=
  match validate eps iw w with
  | .error e => .err e
  | .ok w' =>
    if i < iw.parameter.length then .ok { iw with parameter := iw.parameter.set i w' }
    else .panic "interporation_weight.rs:parameter[stream_index]"

def setGv (eps : α) (iw : IW α) (i : Nat) (w : List α) : Outcome WeightError (IW α) :=
  match validate eps iw w with
  | .error e => .err e
  | .ok w' =>
    if i < iw.gv.length then .ok { iw with gv := iw.gv.set i w' }
    else .panic "interporation_weight.rs:gv[stream_index]"

end IW

/-- One weight update, as data. -/
inductive IWOp (α : Type) where
  | dur (w : List α)
  | par (i : Nat) (w : List α)
  | gv (i : Nat) (w : List α)
  deriving Repr

def IWOp.apply (eps : α) (iw : IW α) : IWOp α → Outcome WeightError (IW α)
  | .dur w => iw.setDuration eps w
  | .par i w => iw.setParameter eps i w
  | .gv i w => iw.setGv eps i w

/-- A history of updates: a rejected update (`Err`) leaves the state as it was. -/
def applyIWHistory (eps : α) (iw : IW α) (ops : List (IWOp α)) : IW α :=
  ops.foldl (fun s op => match IWOp.apply eps s op with | .ok s' => s' | _ => s) iw

/-! ### VoiceSet::new — metadata compatibility -/

/-- `VoiceSet::new` on the voices' (global metadata, per-stream metadata list). -/
def voiceSetNew {G S : Type} [DecidableEq G] [DecidableEq S] (vs : List (G × List S)) :
    Except ModelError Unit :=
  match vs with
  | [] => .error .emptyVoice
  | first :: rest =>
    if rest.all (fun v => decide (v.1 = first.1) && decide (v.2.length = first.2.length) &&
        (v.2.zip first.2).all (fun (a, b) => decide (a = b)))
    then .ok () else .error .metadataError

/-! ### weighted average of the Gaussians selected by each voice -/

namespace ModelParameter

/-- `ModelParameter::mul(weight)` : `(mean*w, vari*w)`, msd `w*msd`. -/
def mul (p : ModelParameter α) (w : α) : ModelParameter α :=
  { parameters := p.parameters.map fun mv => ⟨mv.mean * w, mv.vari * w⟩,
    msd := p.msd.map fun m => w * m }

/-- the zipped in-place `lhs += w * rhs` on the Gaussian list (entries beyond `rhs` are untouched) -/
def zipAdd : List (MeanVari α) → α → List (MeanVari α) → List (MeanVari α)
  | a :: as, w, b :: bs => ⟨a.mean + w * b.mean, a.vari + w * b.vari⟩ :: zipAdd as w bs
  | as, _, _ => as

/-- `mul_add_assign(weight, rhs)` -/
def mulAddAssign (p : ModelParameter α) (w : α) (rhs : ModelParameter α) : ModelParameter α :=
  { parameters := zipAdd p.parameters w rhs.parameters,
    msd := match p.msd, rhs.msd with
      | some m, some r => some (m + w * r)
      | m, _ => m }

end ModelParameter

/-- `VoiceSet::weighted(weights, param)`: first·w₀, then fold `mul_add_assign` over the zipped rest.
    The two `unwrap()`s (no voice / no weight) are panic sites. -/
def weighted (ws : List α) (ps : List (ModelParameter α)) : Outcome Unit (ModelParameter α) :=
  match ps, ws with
  | [], _ => .panic "voice_set.rs:params_iter.next().unwrap()"
  | _, [] => .panic "voice_set.rs:weights_iter.next().unwrap()"
  | p :: prest, w :: wrest =>
    .ok ((prest.zip wrest).foldl (fun acc (q, wq) => acc.mulAddAssign wq q) (p.mul w))

end
end Jb

namespace Jb

/-- Which weight vector a synthesized quantity uses (`Models::duration/stream/gv`). -/
inductive Quantity where
  | dur
  | par (i : Nat)
  | gv (i : Nat)
  deriving Repr, DecidableEq

def IW.select {α : Type} (iw : IW α) : Quantity → List α
  | .dur => iw.duration
  | .par i => iw.parameter.getD i []
  | .gv i => iw.gv.getD i []

def IWOp.target {α : Type} : IWOp α → Quantity
  | .dur _ => .dur
  | .par i _ => .par i
  | .gv i _ => .gv i

/-- every weight vector has one entry per voice, and there is one parameter and one GV vector per stream -/
def IW.WF {α : Type} (iw : IW α) (ns : Nat) : Prop :=
  iw.duration.length = iw.nvoices ∧ iw.parameter.length = ns ∧ iw.gv.length = ns ∧
  (∀ l ∈ iw.parameter, l.length = iw.nvoices) ∧ (∀ l ∈ iw.gv, l.length = iw.nvoices)

end Jb
