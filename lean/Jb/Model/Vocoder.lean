/-
  Model of `src/vocoder/*`: excitation (pulse train, Gaussian noise from the fixed LCG, mixed
  excitation ring buffer), mel-cepstral path (mc2b/b2mc, post-filter, freqt, c2ir, MLSA filter with the
  Padé(5) cascade), LSP path (lsp2lpc, gnorm/ignorm, gc2gc, mgc2mgc, LSP post-filter, stability check,
  MGLSA filter), and `Vocoder::synthesize`.

  Two switches select the pinned commit's behaviour or the repaired one, so that each defect is a
  statement about the model too:
    * `Fix.freqtOrder` — `freqt` consumes its input from the last coefficient down (SPTK order);
    * `Fix.lspSkipGain` — `lsp2lpc` takes the line spectral frequencies from index 1 (index 0 is the gain).
-/
import Jb.Model.Scalar

namespace Jb

structure Fix where
  freqtOrder : Bool
  lspSkipGain : Bool
  deriving Repr

def Fix.repaired : Fix := ⟨true, true⟩
def Fix.pinned : Fix := ⟨false, false⟩

section
variable {α : Type} [Add α] [Sub α] [Mul α] [Div α] [Neg α] [OfNat α 0] [OfNat α 1] [NatCast α]
  [LT α] [DecidableLT α] [LE α] [DecidableLE α] [Transc α] [Consts α]

/-- `c == 0.0` with IEEE semantics on `Float` (`x ≤ x` fails exactly for NaN, so NaN is *not* zero,
    as in Rust) and plain `c = 0` on an ordered field. -/
def isZeroS (c : α) : Bool := !(decide (c < 0)) && !(decide (0 < c)) && decide (c ≤ c)

/-- decimal constant `n / 10^k` (correctly rounded on `Float`, exact on a field) -/
def dec (n k : Nat) : α := (n : α) / ((10 ^ k : Nat) : α)

/-! ### noise: the LCG of `Random` (64-bit wrapping) and Box–Muller -/

structure RandomSt (α : Type) where
  sw : Bool
  r1 : α
  r2 : α
  s : α
  next : UInt64

def RandomSt.init : RandomSt α := ⟨false, 0, 0, 0, 1⟩

/-- `rnd`: `next = next*1103515245 + 12345 (wrapping)`, `r = (next/65536) % 32768`, `r/32767`. -/
def rnd (st : RandomSt α) : α × RandomSt α :=
  let n := st.next * 1103515245 + 12345
  let r := (n / 65536) % 32768
  ((r.toNat : α) / ((32767 : Nat) : α), { st with next := n })

/-- `nrandom`; the rejection loop takes fuel (the sequence is deterministic; 1000 is never reached). -/
def nrandom (st : RandomSt α) : α × RandomSt α :=
  if st.sw then (st.r2 * st.s, { st with sw := false })
  else
    let two : α := ((2 : Nat) : α)
    let rec loop (fuel : Nat) (st : RandomSt α) : RandomSt α :=
      match fuel with
      | 0 => st
      | fuel + 1 =>
        let (u1, st) := rnd st
        let r1 := two * u1 - 1
        let (u2, st) := rnd st
        let r2 := two * u2 - 1
        let s := r1 * r1 + r2 * r2
        let st := { st with r1 := r1, r2 := r2, s := s }
        if 1 < s ∨ isZeroS s then loop fuel st else st
    let st := loop 1000 { st with sw := true }
    let s := Transc.sqrt (-two * Transc.ln st.s / st.s)
    (st.r1 * s, { st with s := s })

/-! ### excitation -/

/-- `Excitation`; the ring buffer is kept rotated so that its head is the current slot
    (`get_mut_with_offset(i)` is position `i`, `advance` moves the cleared head to the back). -/
structure ExcSt (α : Type) where
  pitchOfCurr : α
  pitchCounter : α
  pitchInc : α
  ring : List α
  random : RandomSt α

def ExcSt.init (nlpf : Nat) : ExcSt α :=
  { pitchOfCurr := 0, pitchCounter := 0, pitchInc := 0, ring := List.replicate nlpf 0, random := RandomSt.init }

def excStart (e : ExcSt α) (pitch : α) (fperiod : Nat) : ExcSt α :=
  if !(isZeroS e.pitchOfCurr) && !(isZeroS pitch) then
    { e with pitchInc := (pitch - e.pitchOfCurr) / (fperiod : α) }
  else { e with pitchInc := 0, pitchOfCurr := pitch, pitchCounter := pitch }

def excEnd (e : ExcSt α) (pitch : α) : ExcSt α := { e with pitchOfCurr := pitch }

/-- the pulse of this sample: counter += 1; once it exceeds the period, subtract the period and fire
    `sqrt(period)`. (`>` is the repaired test; the pinned commit's `>=` made the first gap after a
    start `T0 − 1` for an exactly integer period — see `Jb.C07.first_gap_integer_pinned`.) -/
def pulseStep (e : ExcSt α) : α × ExcSt α :=
  let c := e.pitchCounter + 1
  if e.pitchOfCurr < c then (Transc.sqrt e.pitchOfCurr, { e with pitchCounter := c - e.pitchOfCurr })
  else (0, { e with pitchCounter := c })

/-- `Excitation::get(lpf)` -/
def excGet (e : ExcSt α) (lpf : List α) : α × ExcSt α :=
  let n := e.ring.length
  if n > 0 then
    let (noise, rs) := nrandom e.random
    let e := { e with random := rs }
    let center := (n - 1) / 2
    let (ring, e) :=
      if isZeroS e.pitchOfCurr then
        (e.ring.set center (e.ring.getD center 0 + noise), e)
      else
        let (pulse, e) := pulseStep e
        let r1 := if isZeroS noise then e.ring else
          (List.range n).zip (e.ring.zip lpf) |>.map fun (i, (b, h)) =>
            if i = center then b + noise * (1 - h) else b + noise * (0 - h)
        let r1 := if r1.length = n then r1 else e.ring  -- lpf shorter than the ring: index panic in the code
        let r2 := if isZeroS pulse then r1 else (r1.zip lpf).map fun (b, h) => b + pulse * h
        let r2 := if r2.length = n then r2 else r1
        (r2, { e with pitchOfCurr := e.pitchOfCurr + e.pitchInc })
    let x := ring.getD 0 0
    (x, { e with ring := ring.drop 1 ++ [0] })
  else if isZeroS e.pitchOfCurr then
    let (noise, rs) := nrandom e.random
    (noise, { e with random := rs })
  else
    let (pulse, e) := pulseStep e
    (pulse, { e with pitchOfCurr := e.pitchOfCurr + e.pitchInc })

/-! ### mel-cepstrum ↔ MLSA coefficients, post-filter -/

/-- `mc2b`: `b[last] = c[last]`, `b[i] = c[i] − α b[i+1]` (identity when `α = 0`). -/
def mc2b (alpha : α) (c : List α) : List α :=
  if isZeroS alpha then c
  else c.foldr (fun ci acc => match acc with
    | [] => [ci]
    | b :: _ => (ci - alpha * b) :: acc) []

/-- `b2mc`: `c[last] = b[last]`, `c[i] = b[i] + α b[i+1]`. -/
def b2mc (alpha : α) : List α → List α
  | [] => []
  | [b] => [b]
  | b :: b' :: rest => (b + alpha * b') :: b2mc alpha (b' :: rest)

/-- one input sample of `freqt`: the recursion over the output coefficients -/
def freqtStep (alpha aa : α) (x : α) (g : List α) : List α :=
  -- g'[0] = x + α g[0]; g'[1] = aa·g[0] + α g[1]; g'[j] = g[j-1] + α (g[j] − g'[j-1])  (j ≥ 2)
  match g with
  | [] => []
  | g0 :: rest =>
    let n0 := x + alpha * g0
    match rest with
    | [] => [n0]
    | g1 :: rest2 =>
      let n1 := aa * g0 + alpha * g1
      let rec go (prevOld prevNew : α) : List α → List α
        | [] => []
        | gj :: tl =>
          let nj := prevOld + alpha * (gj - prevNew)
          nj :: go gj nj tl
      n0 :: n1 :: go g1 n1 rest2

/-- `freqt(m2, alpha)`; `fixOrder = false` feeds the input ascending as the pinned commit does. -/
def freqt (fixOrder : Bool) (c : List α) (m2 : Nat) (alpha : α) : List α :=
  let aa := 1 - alpha * alpha
  let input := if fixOrder then c.reverse else c
  input.foldl (fun g x => freqtStep alpha aa x g) (List.replicate (m2 + 1) 0)

/-- `c2ir(len)`: impulse response of `exp C(z)`; `rev` holds the response so far, most recent first. -/
def c2ir (c : List α) (len : Nat) : List α :=
  match len with
  | 0 => []
  | len' + 1 =>
    let c0 := c.getD 0 0
    let ctail := c.drop 1    -- c[1], c[2], …
    let rev := (List.range len').foldl (fun (rev : List α) n0 =>
        let n := n0 + 1
        -- d = Σ_{k=1}^{min(|c|, n+1)-1} k c[k] ir[n-k]
        let d := ((List.range (min c.length (n + 1) - 1)).zip (ctail.zip rev)).foldl
          (fun acc (k0, (ck, irv)) => acc + ((k0 + 1 : Nat) : α) * ck * irv) 0
        (d / (n : α)) :: rev) [Transc.exp c0]
    rev.reverse

/-- `b2en`: energy of the 576-tap impulse response of the filter with MLSA coefficients `b`. -/
def b2en (fx : Fix) (alpha : α) (b : List α) : α :=
  let ir := c2ir (freqt fx.freqtOrder (b2mc alpha b) 575 (-alpha)) 576
  sumS (ir.map fun x => x * x)

/-- `postfilter_mcp(beta)` on a mel-cepstrum -/
def postfilterMcp (fx : Fix) (alpha beta : α) (c : List α) : List α :=
  if 0 < beta ∧ c.length > 2 then
    let b := mc2b alpha c
    let e1 := b2en fx alpha b
    let b1 := b.getD 1 0 - beta * alpha * b.getD 2 0
    let b' := (List.range b.length).zip b |>.map fun (k, x) =>
      if k = 1 then b1 else if k ≥ 2 then x * (1 + beta) else x
    let e2 := b2en fx alpha b'
    let b'' := b'.set 0 (b'.getD 0 0 + Transc.ln (e1 / e2) / ((2 : Nat) : α))
    b2mc alpha b''
  else c

/-! ### MLSA filter -/

def padeCoef : List α :=
  [1, dec 4999391 7, dec 1107098 7, dec 1369984 8, dec 9564853 10, dec 3041721 11]

/-- `Df2::fir`: the warped delay line, then `Σ_{i≥2} d[i]·c[i]`. -/
def fir (d : List α) (x alpha : α) (c : List α) : α × List α :=
  match d with
  | [] => (0, [])   -- `d[0] = x` panics in the code (order 0)
  | _ :: dt =>
    let d := x :: dt
    let iaa := 1 - alpha * alpha
    let (dnew, _) := d.foldl (fun (acc : List α × α) di =>
        (acc.1 ++ [alpha * di + acc.2], iaa * di - alpha * acc.2)) ([], 0)
    let y := ((dnew.zip c).drop 2).foldl (fun acc (di, ci) => acc + di * ci) 0
    (y, dnew)

structure MlsaSt (α : Type) where
  d11 : List α
  d12 : List α
  d21 : List (List α)
  d22 : List α

def MlsaSt.init (nmcp : Nat) : MlsaSt α :=
  { d11 := List.replicate 6 0, d12 := List.replicate 6 0,
    d21 := List.replicate 6 (List.replicate nmcp 0), d22 := List.replicate 6 0 }

/-- `df1` -/
def mlsaDf1 (st : MlsaSt α) (x alpha : α) (c : List α) : α × MlsaSt α :=
  let aa := 1 - alpha * alpha
  let c1 := c.getD 1 0
  let pp : List α := padeCoef
  -- i = 5 … 1, reading the OLD d12[i-1]
  let (x', out, d11, d12) := [5, 4, 3, 2, 1].foldl (fun (acc : α × α × List α × List α) i =>
      let (x, out, d11, d12) := acc
      let n11 := aa * st.d12.getD (i - 1) 0 + alpha * d11.getD i 0
      let n12 := n11 * c1
      let v := n12 * pp.getD i 0
      (if i % 2 = 1 then x + v else x + -v, out + v, d11.set i n11, d12.set i n12))
    (x, 0, st.d11, st.d12)
  let d12 := d12.set 0 x'
  (x' + out, { st with d11 := d11, d12 := d12 })

/-- `df2` -/
def mlsaDf2 (st : MlsaSt α) (x alpha : α) (c : List α) : α × MlsaSt α :=
  let pp : List α := padeCoef
  let (x', out, d21, d22) := [5, 4, 3, 2, 1].foldl (fun (acc : α × α × List (List α) × List α) i =>
      let (x, out, d21, d22) := acc
      let (y, dn) := fir (d21.getD (i - 1) []) (st.d22.getD (i - 1) 0) alpha c
      let v := y * pp.getD i 0
      (if i % 2 = 1 then x + v else x + -v, out + v, d21.set (i - 1) dn, d22.set i y))
    (x, 0, st.d21, st.d22)
  let d22 := d22.set 0 x'
  (x' + out, { st with d21 := d21, d22 := d22 })

def mlsaDf (st : MlsaSt α) (x alpha : α) (c : List α) : α × MlsaSt α :=
  let (x1, st1) := mlsaDf1 st x alpha c
  mlsaDf2 st1 x1 alpha c

/-! ### LSP path -/

/-- a cascade of second-order FIR sections `1 + p z⁻¹ + z⁻²`; state per section `(a1, a2)` -/
def lspCascade (x : α) (ps : List α) (st : List (α × α)) : α × List (α × α) :=
  (ps.zip st).foldl (fun (acc : α × List (α × α)) (p, (a1, a2)) =>
      (acc.1 + p * a1 + a2, acc.2 ++ [(acc.1, a1)])) (x, [])

/-- `lsp2lpc`. `lsp` is the whole parameter vector (gain first). Returns `m+1` coefficients with
    `a[0] = 1`, where `m` is the number of frequencies used. -/
def lsp2lpc (fx : Fix) (v : List α) : List α :=
  let lsp := if fx.lspSkipGain then v.drop 1 else v
  let m := lsp.length
  let odd := m % 2 = 1
  let mh1 := if odd then (m + 1) / 2 else m / 2
  let mh2 := if odd then (m - 1) / 2 else m / 2
  let two : α := ((2 : Nat) : α)
  let evens := (List.range m).zip lsp |>.filter (fun (i, _) => i % 2 = 0) |>.map (·.2)
  let odds := (List.range m).zip lsp |>.filter (fun (i, _) => i % 2 = 1) |>.map (·.2)
  let p := evens.map fun x => -two * Transc.cos x
  let q := odds.map fun x => -two * Transc.cos x
  let half : α := 1 / two
  let init : List α × List (α × α) × List (α × α) × α × α :=
    ([], List.replicate mh1 (0, 0), List.replicate mh2 (0, 0), 0, 0)
  let (outs, _, _, _, _) := (List.range (m + 1)).foldl (fun acc k =>
      let (outs, sa, sb, xf, xff) := acc
      let xx : α := if k = 0 then 1 else 0
      let (a00, b00, xf', xff') :=
        if odd then (xx, xx - xff, xx, xf) else (xx + xf, xx - xf, xx, xff)
      let (ao, sa') := lspCascade a00 p sa
      let (bo, sb') := lspCascade b00 q sb
      let outs' := if k > 0 then outs ++ [-half * (ao + bo)] else outs
      (outs', sa', sb', xf', xff')) init
  -- cepstrum[i+1] = -cepstrum[i]; cepstrum[0] = 1
  let _ := mh1; let _ := mh2
  1 :: outs.map fun x => -x

/-- `gnorm` with parameter `gamma` -/
def gnorm (gamma : α) (c : List α) : List α :=
  match c with
  | [] => []
  | c0 :: rest =>
    if !(isZeroS gamma) then
      let k := 1 + gamma * c0
      Transc.pow k (1 / gamma) :: rest.map fun x => x / k
    else Transc.exp c0 :: rest

/-- `ignorm` with parameter `gamma` -/
def ignorm (gamma : α) (c : List α) : List α :=
  match c with
  | [] => []
  | c0 :: rest =>
    if !(isZeroS gamma) then
      let k := Transc.pow c0 gamma
      (k - 1) / gamma :: rest.map fun x => x * k
    else Transc.ln c0 :: rest

/-- `gc2gc`: generalized cepstral transformation from `(c1, g1)` to order `m2`, parameter `g2`. -/
def gc2gc (c1 : List α) (g1 : α) (m2 : Nat) (g2 : α) : List α :=
  let n1 := c1.length
  (List.range m2).foldl (fun (c2 : List α) i0 =>
      let i := i0 + 1
      let (ss1, ss2) := (List.range (min n1 i - 1)).foldl (fun (acc : α × α) k0 =>
          let k := k0 + 1
          let mk := i - k
          let cc := c1.getD k 0 * c2.getD mk 0
          (acc.1 + (mk : α) * cc, acc.2 + (k : α) * cc)) (0, 0)
      let t := (g2 * ss2 - g1 * ss1) / (i : α)
      c2 ++ [if i < n1 then c1.getD i 0 + t else t]) [c1.getD 0 0]

/-- `mgc2mgc` for equal source and target `alpha` (the only call in the vocoder) -/
def mgc2mgcSameAlpha (c : List α) (g1 : α) (m2 : Nat) (g2 : α) : List α :=
  ignorm g2 (gc2gc (gnorm g1 c) g1 m2 g2)

/-- `lsp2mgc` -/
def lsp2mgc (fx : Fix) (useLogGain : Bool) (stage : Nat) (gamma : α) (v : List α) : List α :=
  let lpc := lsp2lpc fx v
  let g0 := if useLogGain then Transc.exp (v.getD 0 0) else v.getD 0 0
  -- `gain.max(MIN_GAIN)`: a NaN or non-positive gain becomes the floor
  let g0 := if Consts.minGain < g0 then g0 else Consts.minGain
  let lpc := lpc.set 0 g0
  let lpc := ignorm gamma lpc
  let lpc := match lpc with
    | [] => []
    | h :: t => h :: t.map fun x => x * -(stage : α)
  mgc2mgcSameAlpha lpc gamma (v.length - 1) gamma

/-- the MGLSA coefficients of one frame: `lsp2mgc().mc2b().gnorm()`, then `·γ` from index 1 -/
def lspCoefficients (fx : Fix) (useLogGain : Bool) (stage : Nat) (gamma alpha : α) (v : List α) : List α :=
  match gnorm gamma (mc2b alpha (lsp2mgc fx useLogGain stage gamma v)) with
  | [] => []
  | h :: t => h :: t.map fun x => x * gamma

def lsp2en (fx : Fix) (useLogGain : Bool) (stage : Nat) (gamma : α) (v : List α) : α :=
  sumS ((lsp2mgc fx useLogGain stage gamma v).map fun x => x * x)

/-- `postfilter_lsp(beta)` -/
def postfilterLsp (fx : Fix) (useLogGain : Bool) (stage : Nat) (gamma beta : α) (v : List α) : List α :=
  let n := v.length
  if 0 < beta ∧ n > 2 then
    let en1 := lsp2en fx useLogGain stage gamma v
    let buf := (List.range n).map fun i =>
      if i > 1 ∧ i < n - 1 then
        let d1 := beta * (v.getD (i + 1) 0 - v.getD i 0)
        let d2 := beta * (v.getD i 0 - v.getD (i - 1) 0)
        v.getD (i - 1) 0 + d2 + (d2 * d2 * ((v.getD (i + 1) 0 - v.getD (i - 1) 0) - (d1 + d2))) / ((d2 * d2) + (d1 * d1))
      else v.getD i 0
    let en2 := lsp2en fx useLogGain stage gamma buf
    if isZeroS (en1 - en2) then buf
    else if useLogGain then buf.set 0 (buf.getD 0 0 + (1 / ((2 : Nat) : α)) * Transc.ln (en1 / en2))
    else buf.set 0 (buf.getD 0 0 * Transc.sqrt (en1 / en2))
  else v

/-- `check_lsp_stability` (up to four passes) -/
def checkLspStability (v : List α) : List α :=
  let n := v.length
  if n = 0 then v else
  let minv : α := (1 / ((4 : Nat) : α)) * Consts.pi / (n : α)
  let last := n - 1
  let half : α := 1 / ((2 : Nat) : α)
  let pass (v : List α) : List α × Bool :=
    let (v, find) := (List.range (last - 1)).foldl (fun (acc : List α × Bool) j0 =>
        let j := j0 + 1
        let (v, find) := acc
        let tmp := v.getD (j + 1) 0 - v.getD j 0
        if tmp < minv then
          let v := v.set j (v.getD j 0 - half * (minv - tmp))
          let v := v.set (j + 1) (v.getD (j + 1) 0 + half * (minv - tmp))
          (v, true)
        else (v, find)) (v, false)
    let (v, find) := if v.getD 1 0 < minv ∧ 1 < n then (v.set 1 minv, true) else (v, find)
    let (v, find) := if Consts.pi - minv < v.getD last 0 then (v.set last (Consts.pi - minv), true) else (v, find)
    (v, find)
  let rec go (fuel : Nat) (v : List α) : List α :=
    match fuel with
    | 0 => v
    | fuel + 1 => let (v', find) := pass v; if find then go fuel v' else v'
  go 4 v

/-- `MGLSA::dff` for one stage: state `d`, coefficients `c` -/
def mglsaDff (d : List α) (x alpha : α) (c : List α) : α × List α :=
  let aa := 1 - alpha * alpha
  let n := c.length
  match d with
  | [] => (x, [])
  | d0 :: _ =>
    -- forward in-place update of d[1 .. n-2], accumulating y
    let (y, dnewRev, _) := (List.range (n - 2)).foldl (fun (acc : α × List α × α) i0 =>
        let i := i0 + 1
        let (y, rev, prevNew) := acc
        let di := d.getD i 0 + alpha * (d.getD (i + 1) 0 - prevNew)
        (y + di * c.getD (i + 1) 0, di :: rev, di)) (d0 * c.getD 1 0, [], d0)
    let x' := x - y
    -- d after the loop: d0, updated d[1..n-2], untouched tail d[n-1..]
    let dmid := d0 :: dnewRev.reverse ++ d.drop (n - 1)
    -- shift: d[i] = d[i-1] for i = n-1 … 1 ; d[0] = α d0 + aa x'
    let shifted := (alpha * d0 + aa * x') :: (dmid.take (n - 1)) ++ dmid.drop n
    (x', if n = 0 then d else shifted)

def mglsaDf (ds : List (List α)) (x alpha : α) (c : List α) : α × List (List α) :=
  ds.foldl (fun (acc : α × List (List α)) d =>
    let (x', d') := mglsaDff d acc.1 alpha c
    (x', acc.2 ++ [d'])) (x, [])

/-! ### Vocoder -/

inductive FilterSt (α : Type) where
  | mlsa (st : MlsaSt α)
  | mglsa (ds : List (List α))

structure VocoderSt (α : Type) where
  stage : Nat
  gamma : α
  useLogGain : Bool
  fperiod : Nat
  rate : Nat
  alpha : α
  beta : α
  volume : α
  coefficients : List α
  filter : FilterSt α
  exc : ExcSt α
  isFirst : Bool

/-- `Vocoder::new` -/
def VocoderSt.new (nmcp nlpf stage : Nat) (useLogGain : Bool) (rate : Nat) (alpha beta volume : α)
    (fperiod : Nat) : VocoderSt α :=
  { stage, gamma := if stage = 0 then 0 else -(1 : α) / (stage : α), useLogGain, fperiod, rate, alpha, beta, volume,
    coefficients := [],
    filter := if stage = 0 then .mlsa (MlsaSt.init nmcp) else .mglsa (List.replicate stage (List.replicate nmcp 0)),
    exc := ExcSt.init nlpf, isFirst := true }

/-- pitch period in samples from log-F0 (`NODATA` ↦ 0) -/
def periodOfLf0 (rate : Nat) (lf0 : α) : α :=
  if isZeroS (lf0 - Consts.nodata) then 0
  else (rate : α) / Transc.exp (clampS lf0 Consts.minLf0 Consts.maxLf0)

/-- `Vocoder::synthesize`: one frame; returns the `fperiod` samples and the new state. -/
def vocoderSynth (fx : Fix) (v : VocoderSt α) (lf0 : α) (spectrum lpf : List α) : List α × VocoderSt α :=
  let p := periodOfLf0 v.rate lf0
  -- first call: coefficients of the (un-postfiltered) first frame
  let v := if v.isFirst then
      { v with isFirst := false,
               coefficients := if v.stage = 0 then mc2b v.alpha spectrum
                               else lspCoefficients fx v.useLogGain v.stage v.gamma v.alpha spectrum }
    else v
  let cc : List α :=
    if v.stage = 0 then mc2b v.alpha (postfilterMcp fx v.alpha v.beta spectrum)
    else
      let l := postfilterLsp fx v.useLogGain v.stage v.gamma v.beta spectrum
      let l := checkLspStability l
      lspCoefficients fx v.useLogGain v.stage v.gamma v.alpha l
  let cinc := (cc.zip v.coefficients).map fun (a, b) => (a - b) / (v.fperiod : α)
  let exc := excStart v.exc p v.fperiod
  let (outRev, coef, filt, exc) := (List.range v.fperiod).foldl
    (fun (acc : List α × List α × FilterSt α × ExcSt α) _ =>
      let (outRev, coef, filt, exc) := acc
      let (x, exc) := excGet exc lpf
      let (y, filt) := match filt with
        | .mlsa st =>
          let x := if !(isZeroS x) then x * Transc.exp (coef.getD 0 0) else x
          let (y, st) := mlsaDf st x v.alpha coef
          (y, FilterSt.mlsa st)
        | .mglsa ds =>
          let x := x * coef.getD 0 0
          let (y, ds) := mglsaDf ds x v.alpha coef
          (y, FilterSt.mglsa ds)
      -- `for i in 0..coefficients.len() { coefficients[i] += cinc[i] }` (cinc is zip-truncated)
      let coef' := if cinc.length = coef.length then (coef.zip cinc).map fun (c, d) => c + d else coef
      ((y * v.volume) :: outRev, coef', filt, exc))
    ([], v.coefficients, v.filter, exc)
  let _ := coef
  (outRev.reverse, { v with coefficients := cc, filter := filt, exc := excEnd exc p })

end
end Jb
