/-
  The `.htsvoice` file grammar (DESIGN.md Appendix E) on bytes: sections, header maps, ranges, tree
  text, PDF blocks, windows. Every data-derived slice, reference and multiplication is a guarded site
  (`guarded = true`: the repaired loader returns an error; `false`: the pinned commit panics).
-/
import Jb.Model.Htsvoice

namespace Jb.Hts

abbrev Res (α : Type) := Outcome String α

def siteFail {α : Type} (guarded : Bool) (site what : String) : Res α :=
  if guarded then .err what else .panic (site ++ ":" ++ what)

/-! ### small text helpers (bytes are `Nat`s) -/

def toChars (b : List Nat) : List Char := b.map Char.ofNat
def strOf (b : List Nat) : String := String.ofList (toChars b)

/-- split on a byte -/
def splitOn (sep : Nat) (b : List Nat) : List (List Nat) :=
  let r := b.foldr (fun c (acc : List Nat × List (List Nat)) =>
    if c = sep then ([], acc.1 :: acc.2) else (c :: acc.1, acc.2)) ([], [])
  r.1 :: r.2

def isDigit (c : Nat) : Bool := 48 ≤ c && c ≤ 57

/-- leading-digits number with the 64-bit bound: `none` = no leading digit;
    `some (none, rest)` = overflow of `usize`; `some (some n, rest)` otherwise -/
def leadingNat (b : List Nat) : Option (Option Nat × List Nat) :=
  match b with
  | c :: _ =>
    if isDigit c then
      let ds := b.takeWhile isDigit
      let n := ds.foldl (fun a d => a * 10 + (d - 48)) 0
      some (if n < 2 ^ 64 then some n else none, b.dropWhile isDigit)
    else none
  | [] => none

/-- a header number: leading digits; `strict` also rejects trailing characters (as in `[GLOBAL]`) -/
def headerNat (guarded strict : Bool) (b : List Nat) : Res Nat :=
  match leadingNat b with
  | none => .err "ExpectedInteger"
  | some (none, _) => siteFail guarded "header/de.rs:int*=10" "integer overflow"
  | some (some n, rest) => if strict && !rest.isEmpty then .err "ExpectedMapNewline" else .ok n

def headerBool (b : List Nat) : Res Bool :=
  match b with
  | 48 :: _ => .ok false
  | 49 :: _ => .ok true
  | _ => .err "ExpectedBool"

/-- a string value: `"…"` up to the next quote, or the raw text -/
def headerStr (b : List Nat) : List Nat :=
  match b with
  | 34 :: rest => rest.takeWhile (· ≠ 34)
  | _ => b

/-- comma-separated strings (empty value = empty list) -/
def headerStrList (b : List Nat) : List (List Nat) :=
  if b.isEmpty then [] else (splitOn 44 b).map headerStr

/-- `a-b` -/
def headerPair (guarded : Bool) (b : List Nat) : Res (Nat × Nat) :=
  match splitOn 45 b with
  | [x, y] =>
    match headerNat guarded false x, headerNat guarded false y with
    | .ok a, .ok c => .ok (a, c)
    | .panic s, _ => .panic s
    | _, .panic s => .panic s
    | .err e, _ => .err e
    | _, .err e => .err e
  | _ => .err "invalid pair"

/-- key/value lines of one header section; a line without `:` is an error -/
def headerLines (b : List Nat) : Res (List (List Nat × List Nat)) :=
  let lines := (splitOn 10 b).filter (!·.isEmpty)
  lines.foldr (fun l acc =>
    match acc with
    | .ok kvs =>
      let k := l.takeWhile (· ≠ 58)
      if k.length = l.length then .err "ExpectedMapColon" else .ok ((k, l.drop (k.length + 1)) :: kvs)
    | e => e) (.ok [])

def lookup1 (kvs : List (List Nat × List Nat)) (key : String) : Res (List Nat) :=
  match kvs.filter (fun kv => strOf kv.1 == key) with
  | [kv] => .ok kv.2
  | [] => .err ("missing field " ++ key)
  | _ => .err ("duplicate field " ++ key)

def lookupOpt (kvs : List (List Nat × List Nat)) (key : String) : Res (Option (List Nat)) :=
  match kvs.filter (fun kv => strOf kv.1 == key) with
  | [kv] => .ok (if kv.2.isEmpty then none else some kv.2)
  | [] => .ok none
  | _ => .err ("duplicate field " ++ key)

structure HGlobal where
  version : String
  sr : Nat
  fp : Nat
  nstates : Nat
  nstreams : Nat
  streamType : List String
  fmt : String
  fver : String
  gvOff : List (List Char)
  deriving Repr

def bindR {α β : Type} (x : Res α) (f : α → Res β) : Res β := Outcome.bind x f

def parseGlobal (guarded : Bool) (b : List Nat) : Res HGlobal :=
  bindR (headerLines b) fun kvs =>
  bindR (lookup1 kvs "HTS_VOICE_VERSION") fun ver =>
  bindR (bindR (lookup1 kvs "SAMPLING_FREQUENCY") (headerNat guarded true)) fun sr =>
  bindR (bindR (lookup1 kvs "FRAME_PERIOD") (headerNat guarded true)) fun fp =>
  bindR (bindR (lookup1 kvs "NUM_STATES") (headerNat guarded true)) fun nst =>
  bindR (bindR (lookup1 kvs "NUM_STREAMS") (headerNat guarded true)) fun nsm =>
  bindR (lookup1 kvs "STREAM_TYPE") fun st =>
  bindR (lookup1 kvs "FULLCONTEXT_FORMAT") fun fmt =>
  bindR (lookup1 kvs "FULLCONTEXT_VERSION") fun fver =>
  bindR (lookup1 kvs "GV_OFF_CONTEXT") fun gvo =>
  bindR (lookup1 kvs "COMMENT") fun _ =>
  .ok { version := strOf (headerStr ver), sr, fp, nstates := nst, nstreams := nsm,
        streamType := (headerStrList st).map strOf, fmt := strOf (headerStr fmt), fver := strOf (headerStr fver),
        gvOff := (headerStrList gvo).map toChars }

/-- `NAME[SUB]:value` lines grouped by `SUB`; keys without `[…]` are skipped -/
def groupIndexed (kvs : List (List Nat × List Nat)) (sub : String) : List (List Nat × List Nat) :=
  kvs.filterMap fun (k, v) =>
    match k.getLast? with
    | some 93 =>
      let main := k.takeWhile (· ≠ 91)
      if main.length = k.length then none
      else
        let s := (k.drop (main.length + 1)).dropLast
        if strOf s == sub then some (main, v) else none
    | _ => none

structure HStream where
  veclen : Nat
  nwin : Nat
  isMsd : Bool
  useGv : Bool
  option : List String
  deriving Repr

def parseStreamGroup (guarded : Bool) (g : List (List Nat × List Nat)) : Res HStream :=
  bindR (bindR (lookup1 g "VECTOR_LENGTH") (headerNat guarded false)) fun vl =>
  bindR (bindR (lookup1 g "NUM_WINDOWS") (headerNat guarded false)) fun nw =>
  bindR (bindR (lookup1 g "IS_MSD") headerBool) fun msd =>
  bindR (bindR (lookup1 g "USE_GV") headerBool) fun gv =>
  bindR (lookup1 g "OPTION") fun opt =>
  .ok { veclen := vl, nwin := nw, isMsd := msd, useGv := gv, option := (headerStrList opt).map strOf }

structure HPos where
  win : List (Nat × Nat)
  pdf : Nat × Nat
  tree : Nat × Nat
  gvPdf : Option (Nat × Nat)
  gvTree : Option (Nat × Nat)
  deriving Repr

def sequenceR {α : Type} : List (Res α) → Res (List α)
  | [] => .ok []
  | x :: xs => bindR x fun a => bindR (sequenceR xs) fun as => .ok (a :: as)

def optPair (guarded : Bool) (o : Option (List Nat)) : Res (Option (Nat × Nat)) :=
  match o with
  | none => .ok none
  | some b => bindR (headerPair guarded b) fun p => .ok (some p)

def parsePosGroup (guarded : Bool) (g : List (List Nat × List Nat)) : Res HPos :=
  bindR (lookup1 g "STREAM_WIN") fun w =>
  bindR (sequenceR ((if w.isEmpty then [] else splitOn 44 w).map (headerPair guarded))) fun win =>
  bindR (bindR (lookup1 g "STREAM_PDF") (headerPair guarded)) fun pdf =>
  bindR (bindR (lookup1 g "STREAM_TREE") (headerPair guarded)) fun tree =>
  bindR (bindR (lookupOpt g "GV_PDF") (optPair guarded)) fun gp =>
  bindR (bindR (lookupOpt g "GV_TREE") (optPair guarded)) fun gt =>
  .ok { win, pdf, tree, gvPdf := gp, gvTree := gt }

/-! ### sections -/

/-- find the first occurrence of `pat` -/
def findSub (pat b : List Nat) : Option Nat :=
  let rec go (i : Nat) (b : List Nat) (fuel : Nat) : Option Nat :=
    match fuel with
    | 0 => none
    | fuel + 1 =>
      if pat.isPrefixOf b then some i
      else match b with
        | [] => none
        | _ :: t => go (i + 1) t fuel
  go 0 b (b.length + 1)

def bytesOf (s : String) : List Nat := s.toUTF8.toList.map (·.toNat)

/-- `std::str::from_utf8` acceptance (no overlong forms, no surrogates, at most U+10FFFF) -/
def validUtf8 : List Nat → Bool
  | [] => true
  | b0 :: rest =>
    let cont (b : Nat) : Bool := 0x80 ≤ b && b ≤ 0xBF
    if b0 < 0x80 then validUtf8 rest
    else if 0xC2 ≤ b0 && b0 ≤ 0xDF then
      match rest with
      | b1 :: r => cont b1 && validUtf8 r
      | _ => false
    else if 0xE0 ≤ b0 && b0 ≤ 0xEF then
      match rest with
      | b1 :: b2 :: r =>
        (if b0 = 0xE0 then 0xA0 ≤ b1 && b1 ≤ 0xBF else if b0 = 0xED then 0x80 ≤ b1 && b1 ≤ 0x9F else cont b1) &&
          cont b2 && validUtf8 r
      | _ => false
    else if 0xF0 ≤ b0 && b0 ≤ 0xF4 then
      match rest with
      | b1 :: b2 :: b3 :: r =>
        (if b0 = 0xF0 then 0x90 ≤ b1 && b1 ≤ 0xBF else if b0 = 0xF4 then 0x80 ≤ b1 && b1 ≤ 0x8F else cont b1) &&
          cont b2 && cont b3 && validUtf8 r
      | _ => false
    else false

/-- `[GLOBAL]\n G \n+ [STREAM]\n S \n+ [POSITION]\n P \n+ [DATA]\n D` -/
def splitSections (b : List Nat) : Res (List Nat × List Nat × List Nat × List Nat) :=
  let skipNl (b : List Nat) := b.dropWhile (· = 10)
  let sect (tag : String) (needNl : Bool) (b : List Nat) : Res (List Nat × List Nat) :=
    let b' := skipNl b
    if needNl && b'.length = b.length then .err "nom: expected newline before section"
    else
      let t := bytesOf tag
      if !(t.isPrefixOf b') then .err ("nom: expected " ++ tag)
      else
        let body := b'.drop t.length
        match findSub [10, 91] body with
        | none => .err "nom: take_until"
        | some i => .ok (body.take i, body.drop i)
  bindR (sect "[GLOBAL]\n" false b) fun (g, r1) =>
  bindR (sect "[STREAM]\n" true r1) fun (s, r2) =>
  bindR (sect "[POSITION]\n" true r2) fun (p, r3) =>
    let r3' := skipNl r3
    if r3'.length = r3.length then .err "nom: expected newline before [DATA]"
    else
      let t := bytesOf "[DATA]\n"
      if t.isPrefixOf r3' then .ok (g, s, p, r3'.drop t.length) else .err "nom: expected [DATA]"

/-- `input[a ..= b]` -/
def sliceIncl (guarded : Bool) (site : String) (d : List Nat) (r : Nat × Nat) : Res (List Nat) :=
  if r.1 ≤ r.2 + 1 ∧ r.2 + 1 ≤ d.length ∧ r.2 + 1 < 2 ^ 64 then .ok ((d.drop r.1).take (r.2 + 1 - r.1))
  else siteFail guarded site "range outside the data section"

/-! ### tree text -/

def isSpace (c : Nat) : Bool := c = 32 || c = 10

def tokens (b : List Nat) : List (List Nat) :=
  let r := b.foldr (fun c (acc : List Nat × List (List Nat)) =>
    if isSpace c then (if acc.1.isEmpty then acc else ([], acc.1 :: acc.2)) else (c :: acc.1, acc.2)) ([], [])
  if r.1.isEmpty then r.2 else r.1 :: r.2

def stripQuotes (t : List Nat) : List Nat :=
  match t with
  | 34 :: rest => if rest.getLast? = some 34 then rest.dropLast else t
  | _ => t

def isIdentChar (c : Nat) : Bool := isDigit c || (65 ≤ c && c ≤ 90) || (97 ≤ c && c ≤ 122) || c = 95

/-- `parse_pattern`: ASCII letters and digits, the wildcards `*` `?`, and the 13 label symbols of
    `JPCOMMON_SYMBOLS` (given below by code point) -/
def isPatChar (c : Nat) : Bool :=
  isDigit c || (65 ≤ c && c ≤ 90) || (97 ≤ c && c ≤ 122) || c = 42 || c = 63 ||
    [33, 35, 37, 38, 43, 45, 47, 58, 61, 64, 94, 95, 124].contains c

/-- `parse_question_ident`: ASCII, no separator (tokens carry no separators) -/
def isAsciiTok (t : List Nat) : Bool := t.all (· < 128)

/-- a child reference: signed digits = node id; identifier whose last run of digits is the PDF id -/
def parseChild (t : List Nat) : Option Child :=
  let u := stripQuotes t
  let (neg, ds) := match u with | 45 :: r => (true, r) | _ => (false, u)
  if !ds.isEmpty && ds.all isDigit then
    let n : Nat := ds.foldl (fun (a : Nat) (d : Nat) => a * 10 + (d - 48)) 0
    some (.node (if neg then -(Int.ofNat n) else Int.ofNat n))
  else if !u.isEmpty && u.all isIdentChar then
    let run := (u.reverse.takeWhile isDigit).reverse
    if run.isEmpty then none else some (.pdf (run.foldl (fun a d => a * 10 + (d - 48)) 0))
  else none

def parseSignedNat (t : List Nat) : Option Int :=
  match parseChild t with
  | some (.node i) => if (stripQuotes t).length = t.length then some i else none
  | _ => none

/-- `QS name { "p","q" }` lines, then `{*}[s]` trees; whitespace-tokenised -/
def parseTreeText (b : List Nat) : Option (Questions × List FileTree) :=
  let toks := tokens b
  -- `parse_questions` starts with the tag `QS` at the first byte; only trees may be preceded by separators
  if (toks.head?.map strOf) == some "QS" && b.head? != some 81 then none else
  let rec go (fuel : Nat) (ts : List (List Nat)) (qs : Questions) (trees : List FileTree) :
      Option (Questions × List FileTree) :=
    match fuel with
    | 0 => none
    | fuel + 1 =>
      match ts with
      | [] => some (qs.reverse, trees.reverse)
      | t :: rest =>
        if strOf t == "QS" then
          match rest with
          | name :: open_ :: rest2 =>
            if strOf open_ != "{" then none else
            let pats := rest2.takeWhile (fun x => strOf x != "}")
            let after := rest2.drop (pats.length + 1)
            if pats.length = rest2.length then none else
            let raw := (splitOn 44 (pats.flatten)).filter (!·.isEmpty) |>.map stripQuotes
            if !isAsciiTok name || raw.any (fun p => !p.all isPatChar) then none else
            let ps := raw.map toChars
            go fuel after ((strOf name, ps) :: qs) trees
          | _ => none
        else if (bytesOf "{*}[").isPrefixOf t && t.getLast? = some 93 then
          match parseSignedNat ((t.drop 4).dropLast) with
          | none => none
          | some st =>
            match rest with
            | [] => none
            | nxt :: rest2 =>
              if strOf nxt == "{" then
                let body := rest2.takeWhile (fun x => strOf x != "}")
                if body.length = rest2.length then none else
                let after := rest2.drop (body.length + 1)
                if body.length % 4 ≠ 0 then none else
                let rows := (List.range (body.length / 4)).map fun i =>
                  match parseSignedNat (body.getD (4 * i) []), parseChild (body.getD (4 * i + 2) []), parseChild (body.getD (4 * i + 3) []) with
                  | some id, some no, some yes =>
                    if isAsciiTok (body.getD (4 * i + 1) []) then some ({ id, qname := strOf (body.getD (4 * i + 1) []), no, yes } : Row) else none
                  | _, _, _ => none
                if rows.any Option.isNone then none
                else go fuel after qs ({ state := st.toNat, rows := rows.filterMap id } :: trees)
              else
                match parseChild nxt with
                | none => none
                | some c => go fuel rest2 qs ({ state := st.toNat, rows := [{ id := 0, qname := "", no := c, yes := c }] } :: trees)
        else none
  go (toks.length + 1) toks [] []

/-- `parse_model`: tree range, PDF range, PDF length -/
def parseModel (guarded : Bool) (d : List Nat) (treeR pdfR : Nat × Nat) (pdfLen : Nat) : Res FileModel :=
  bindR (sliceIncl guarded "parser/mod.rs:input[a..b+1]" d treeR) fun tb =>
  match parseTreeText tb with
  | none => .err "nom: tree text"
  | some (qs, trees) =>
    bindR (sliceIncl guarded "parser/mod.rs:input[a..b+1]" d pdfR) fun pb =>
    match parsePdfBlock pb trees.length pdfLen with
    | none => .err "nom: pdf block"
    | some pdfs =>
      -- `convert_tree` on every tree: the reference / question checks
      bindR (sequenceR (trees.map fun t => convertTree guarded qs t)) fun _ =>
      .ok { questions := qs, trees, pdfs }

structure ParsedStream where
  name : String
  info : HStream
  model : FileModel
  gv : Option FileModel
  windows : List (List String)
  deriving Repr

structure ParsedVoice where
  global : HGlobal
  duration : FileModel
  streams : List ParsedStream
  deriving Repr

/-- the text nom's `double` accepts: `[+-]? (digits [. digits*]? | . digits+) ([eE] [+-]? digits+)?`, or
    `inf` / `infinity` / `nan` in any case -/
def isDoubleText (t : List Nat) : Bool :=
  let lower := t.map fun c => if 65 ≤ c && c ≤ 90 then c + 32 else c
  let unsigned := match lower with | 43 :: r => r | 45 :: r => r | r => r
  if unsigned == bytesOf "inf" || unsigned == bytesOf "infinity" || unsigned == bytesOf "nan" then true
  else
    let intPart := unsigned.takeWhile isDigit
    let r1 := unsigned.drop intPart.length
    let (fracOk, r2) := match r1 with
      | 46 :: r =>
        let f := r.takeWhile isDigit
        (!intPart.isEmpty || !f.isEmpty, r.drop f.length)
      | r => (!intPart.isEmpty, r)
    fracOk && (match r2 with
      | [] => true
      | e :: r =>
        if e = 101 then
          let r' := match r with | 43 :: q => q | 45 :: q => q | q => q
          !r'.isEmpty && r'.all isDigit
        else false)

/-- `parse_window_row`: the count is the very first byte run (no leading separator), then that many doubles -/
def parseWindow (b : List Nat) : Option (List String) :=
  if !((b.head?.map isDigit).getD false) then none else
  match tokens b with
  | n :: cs =>
    match leadingNat n with
    | some (some k, []) => if cs.length = k && cs.all isDoubleText then some (cs.map strOf) else none
    | _ => none
  | [] => none

def checkedMul (guarded : Bool) (a b : Nat) : Res Nat :=
  if a * b < 2 ^ 64 then .ok (a * b) else siteFail guarded "parser/mod.rs:pdf_len" "multiplication overflow"

/-- `parse_htsvoice` -/
def parseVoice (guarded : Bool) (bytes : List Nat) : Res ParsedVoice :=
  bindR (splitSections bytes) fun (gb, sb, pb, d) =>
  if !(validUtf8 gb && validUtf8 sb && validUtf8 pb) then .err "HeaderUtf8Error" else
  bindR (parseGlobal guarded gb) fun g =>
  bindR (headerLines sb) fun skv =>
  bindR (headerLines pb) fun pkv =>
  bindR (bindR (lookup1 pkv "DURATION_PDF") (headerPair guarded)) fun dpdf =>
  bindR (bindR (lookup1 pkv "DURATION_TREE") (headerPair guarded)) fun dtree =>
  bindR (checkedMul guarded g.nstates 2) fun durLen =>
  bindR (parseModel guarded d dtree dpdf durLen) fun dur =>
  if g.streamType.isEmpty then siteFail guarded "model/voice_set.rs:stream_models[0]" "voice without streams"
  else if g.nstreams ≠ g.streamType.length then
    -- the pinned commit never compared them: `Condition::load_model` then allocates NUM_STREAMS entries
    if guarded then .err "NUM_STREAMS does not match STREAM_TYPE"
    else if g.nstreams < 2 ^ 24 then .err "NUM_STREAMS does not match STREAM_TYPE (accepted by the pinned commit)"
    else .panic "engine.rs:[0.5].repeat(nstream) allocation"
  else
  bindR (sequenceR (g.streamType.map fun name =>
    let pg := groupIndexed pkv name
    let sg := groupIndexed skv name
    if pg.isEmpty then (.err "PositionNotFound" : Res ParsedStream)
    else if sg.isEmpty then .err "StreamNotFound"
    else
      bindR (parsePosGroup guarded pg) fun pos =>
      bindR (parseStreamGroup guarded sg) fun sm =>
      bindR (checkedMul guarded sm.veclen sm.nwin) fun vw =>
      bindR (checkedMul guarded vw 2) fun vw2 =>
      bindR (parseModel guarded d pos.tree pos.pdf (vw2 + (if sm.isMsd then 1 else 0))) fun model =>
      bindR (if sm.useGv then
          match pos.gvTree, pos.gvPdf with
          | some gt, some gp =>
            bindR (checkedMul guarded sm.veclen 2) fun gl =>
            bindR (parseModel guarded d gt gp gl) fun m => .ok (some m)
          | _, _ => .err "UseGvError"
        else .ok none) fun gv =>
      bindR (sequenceR (pos.win.map fun r =>
          bindR (sliceIncl guarded "parser/mod.rs:input[win.0..=win.1]" d r) fun wb =>
          match parseWindow wb with
          | some w => .ok w
          | none => .err "nom: window")) fun wins =>
      .ok { name, info := sm, model, gv, windows := wins })) fun streams =>
  .ok { global := g, duration := dur, streams }

end Jb.Hts
