/-
  The whole library as one function of (voice files, interpolation weights, condition, label text):
  `Models::{duration, model_stream}` (src/model/mod.rs) composed from the voice-file model
  (`Jb/Model/HtsParse.lean`: tree walk with wildcard questions, PDFs) and the interpolation model
  (`Jb/Model/Weights.lean`), feeding the pipeline model (`Jb/Model/Engine.lean`).

  Two parameters connect the byte-level model to the scalar type: widening a float32 bit pattern and
  reading a decimal coefficient (window rows, `ALPHA=`).
-/
import Jb.Model.HtsParse
import Jb.Model.Weights
import Jb.Model.Engine

namespace Jb

class FromFile (α : Type) where
  ofF32 : UInt32 → α            -- exact widening of an IEEE float32
  ofDecimal : String → α        -- decimal text → scalar

namespace Synth
open Hts

variable {α : Type} [Add α] [Sub α] [Mul α] [Div α] [Neg α] [OfNat α 0] [OfNat α 1] [NatCast α]
  [LT α] [DecidableLT α] [LE α] [DecidableLE α] [Transc α] [Consts α] [MlpgConsts α] [RoundNat α] [FromFile α]

def toModelParameter (p : PdfBits) : ModelParameter α :=
  { parameters := (p.means.zip p.varis).map fun (m, v) => ⟨FromFile.ofF32 m, FromFile.ofF32 v⟩,
    msd := p.msd.map FromFile.ofF32 }

/-- one voice's Gaussian for (model, state, label); `none` is the `todo!`/index panic at synthesis time -/
def select (m : FileModel) (state : Nat) (label : List Char) : Option (ModelParameter α) :=
  (getParameter m state label).map fun x => toModelParameter x.2.2

def sequenceO {β : Type} : List (Option β) → Option (List β)
  | [] => some []
  | none :: _ => none
  | some x :: xs => (sequenceO xs).map (x :: ·)

/-- `VoiceSet::weighted` over the voices' selections -/
def blend (ws : List α) (sel : List (Option (ModelParameter α))) : Outcome Unit (ModelParameter α) :=
  match sequenceO sel with
  | none => .panic "voice/model.rs:index not found"
  | some ps => weighted ws ps

def sequenceOut {β : Type} : List (Outcome Unit β) → Outcome Unit (List β)
  | [] => .ok []
  | x :: xs => x.bind fun a => (sequenceOut xs).bind fun as => .ok (a :: as)

/-- `Models::duration` -/
def modelsDuration (voices : List ParsedVoice) (iw : IW α) (labels : List (List Char)) :
    Outcome Unit (List (MeanVari α)) :=
  (sequenceOut (labels.map fun l => blend iw.duration (voices.map fun v => select v.duration 2 l))).map
    fun ps => (ps.map (·.parameters)).flatten

def streamOf (v : ParsedVoice) (i : Nat) : Option ParsedStream := v.streams[i]?

/-- `Models::stream(i)`: per label and state, the blended Gaussians and MSD weight (`f64::MAX` stand-in
    `big` when the stream is not multi-space) -/
def modelsStream (big : α) (voices : List ParsedVoice) (iw : IW α) (labels : List (List Char)) (nstate i : Nat) :
    Outcome Unit (List (StateParam α)) :=
  sequenceOut ((labels.map fun l => (List.range nstate).map fun k =>
    (blend (iw.parameter.getD i []) (voices.map fun v => (streamOf v i).bind fun s => select s.model (k + 2) l)).map
      fun mp => ({ params := mp.parameters, msd := mp.msd.getD big } : StateParam α)).flatten)

/-- `Models::gv(i)` -/
def modelsGv (voices : List ParsedVoice) (iw : IW α) (labels : List (List Char)) (nstate i : Nat) :
    Outcome Unit (Option (List (MeanVari α) × List Bool)) :=
  match voices with
  | [] => .panic "voice_set.rs:first"
  | v0 :: _ =>
    match streamOf v0 i with
    | none => .panic "model/mod.rs:stream_models[i]"
    | some s0 =>
      if !s0.info.useGv then .ok none
      else match labels with
        | [] => .ok none
        | l0 :: _ =>
          (blend (iw.gv.getD i []) (voices.map fun v => (streamOf v i).bind fun s => s.gv.bind fun g => select g 2 l0)).map
            fun mp =>
              let sw := (labels.map fun l => List.replicate nstate (!(questionTest v0.global.gvOff l))).flatten
              some (mp.parameters, sw)

/-- `Models::model_stream(i)` -/
def modelStream (big : α) (voices : List ParsedVoice) (iw : IW α) (labels : List (List Char)) (nstate i : Nat) :
    Outcome Unit (StreamIn α) :=
  match voices with
  | [] => .panic "voice_set.rs:first"
  | v0 :: _ =>
    match streamOf v0 i with
    | none => .panic "model/mod.rs:stream_models[i]"
    | some s0 =>
      (modelsStream big voices iw labels nstate i).bind fun st =>
      (modelsGv voices iw labels nstate i).bind fun gv =>
      .ok { vectorLength := s0.info.veclen, stream := st, gv,
            windows := s0.windows.map fun w => w.map FromFile.ofDecimal }

/-- everything `Engine::generator` reads from the voices for these labels -/
def engineIn (big : α) (voices : List ParsedVoice) (iw : IW α) (labels : List (List Char)) (times : List (α × α)) :
    Outcome Unit (EngineIn α) :=
  match voices with
  | [] => .panic "voice_set.rs:first"
  | v0 :: _ =>
    let nstate := v0.global.nstates
    let ns := v0.global.nstreams
    (modelsDuration voices iw labels).bind fun dur =>
    (sequenceOut ((List.range ns).map fun i => modelStream big voices iw labels nstate i)).bind fun streams =>
    .ok { nstate, nstream := ns, duration := dur, streams, times }

/-- the spectrum options of the header (`GAMMA=`, `LN_GAIN=`, `ALPHA=`) -/
def headerOptions (v0 : ParsedVoice) : Option Nat × Option Bool × Option α :=
  match v0.streams.head? with
  | none => (none, none, none)
  | some s =>
    s.info.option.foldl (fun (acc : Option Nat × Option Bool × Option α) o =>
      if o.startsWith "GAMMA=" then ((o.drop 6).toString.toNat?, acc.2.1, acc.2.2)
      else if o.startsWith "LN_GAIN=" then (acc.1, some ((o.drop 8).toString == "1"), acc.2.2)
      else if o.startsWith "ALPHA=" then (acc.1, acc.2.1, some (FromFile.ofDecimal (o.drop 6).toString))
      else acc) (none, none, none)

/-- `Engine::load` + setter history + `synthesize`, from the parsed voices -/
def synthesize (fx : Fix) (big : α) (voices : List ParsedVoice) (iw : IW α) (ops : List (CondOp α))
    (speedIsOne : Condition α → Bool) (labels : List (List Char)) (times : List (α × α)) : Outcome Unit (List α) :=
  match voices with
  | [] => .panic "voice_set.rs:first"
  | v0 :: _ =>
    let (stage, lg, alpha) := headerOptions (α := α) v0
    let c0 : Condition α := Condition.default.loadModel v0.global.sr v0.global.fp v0.global.nstreams stage lg alpha
    let c := applyHistory c0 ops
    (engineIn big voices iw labels times).bind fun inp => engineSynthesize fx c (speedIsOne c) inp

end Synth
end Jb
