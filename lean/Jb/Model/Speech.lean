/-
  Model of `SpeechGenerator` (src/speech.rs): the incremental generation state machine, over an
  abstract vocoder `synth : V → F → V × List α` (one frame in, new vocoder state and the samples of
  that frame out). The concrete vocoder model (`Jb/Model/Vocoder.lean`) instantiates `synth`; the
  correspondence for C02 instantiates it with a cursor into the implementation's one-shot waveform.
-/
import Jb.Model.Scalar

namespace Jb

structure Gen (V F : Type) where
  fperiod : Nat
  frames  : List F
  next    : Nat
  voc     : V

namespace Gen
variable {V F α : Type}

/-- `generate_step(&mut speech)`: returns the new generator, the returned count and the buffer after
    the call. Exhausted → `0`, buffer untouched. Buffer shorter than one frame → panic. Otherwise the
    first `fperiod` cells are overwritten with the frame's samples and the rest is untouched. -/
def step (synth : V → F → V × List α) (g : Gen V F) (buf : List α) :
    Outcome Unit (Gen V F × Nat × List α) :=
  match g.frames[g.next]? with
  | none => .ok (g, 0, buf)
  | some f =>
    if buf.length < g.fperiod then .panic "speech.rs:buffer shorter than fperiod"
    else
      let r := synth g.voc f
      .ok ({ g with next := g.next + 1, voc := r.1 }, g.fperiod,
           (r.2.take g.fperiod) ++ buf.drop g.fperiod)

/-- `synthesized_frames()` -/
def synthesizedFrames (g : Gen V F) : Nat := g.next

/-- The `while self.generate_step(&mut buf[off..]) > 0 {}` loop of `generate_all`.
    `base` is the frame index that buffer offset 0 corresponds to:
    `base = start` (the frame count when `generate_all` was called) in the repaired code,
    `base = 0` in the pinned commit (absolute frame index into a buffer sized for the remainder). -/
def finishLoop (synth : V → F → V × List α) (base : Nat) :
    Nat → Gen V F → List α → Outcome Unit (List α)
  | 0, _, _ => .panic "model: out of fuel (unreachable)"
  | fuel + 1, g, buf =>
    let off := (g.next - base) * g.fperiod
    if buf.length < off then .panic "speech.rs:buf[next*fperiod..] out of range"
    else
      match step synth g (buf.drop off) with
      | .ok (g', n, sub) =>
        if n = 0 then .ok buf else finishLoop synth base fuel g' (buf.take off ++ sub)
      | .err e => .err e
      | .panic s => .panic s

/-- `generate_all(self)`; `fixed = true` is the repaired indexing. -/
def finish [OfNat α 0] (synth : V → F → V × List α) (fixed : Bool) (g : Gen V F) : Outcome Unit (List α) :=
  let remaining := g.frames.length - g.next
  finishLoop synth (if fixed then g.next else 0) (remaining + 1) g
    (List.replicate (remaining * g.fperiod) 0)

/-- The specification: the waveform of a frame list is the concatenation of the per-frame outputs,
    threading the vocoder state. -/
def render (synth : V → F → V × List α) : V → List F → List α
  | _, [] => []
  | v, f :: fs => let r := synth v f; r.2 ++ render synth r.1 fs

/-- vocoder state after rendering a frame list -/
def stateAfter (synth : V → F → V × List α) : V → List F → V
  | v, [] => v
  | v, f :: fs => stateAfter synth (synth v f).1 fs

end Gen

/-- One caller operation on a generator (C02 histories). -/
inductive GenOp where
  | step (bufLen : Nat)
  | query
  | finish
  deriving Repr, BEq

/-- What the caller observes from one operation. -/
inductive GenObs (α : Type) where
  | stepped (ret : Nat) (buf : List α)   -- return value and the whole buffer after the call
  | count (n : Nat)
  | finished (w : List α)
  | panicked (site : String)
  deriving Repr

/-- Run a caller history against the generator model. A `step` carries the caller's buffer contents
    (its length is the op's `bufLen`). `finish` consumes the generator: the history ends there. A panic
    ends it too. -/
def runOps {V F α : Type} [OfNat α 0] (synth : V → F → V × List α) (fixed : Bool) :
    Gen V F → List (GenOp × List α) → List (GenObs α)
  | _, [] => []
  | g, (.step _, buf) :: rest =>
    match Gen.step synth g buf with
    | .ok (g', n, buf') => .stepped n buf' :: runOps synth fixed g' rest
    | .err _ => [.panicked "err"]
    | .panic s => [.panicked s]
  | g, (.query, _) :: rest => .count g.synthesizedFrames :: runOps synth fixed g rest
  | g, (.finish, _) :: _ =>
    match Gen.finish synth fixed g with
    | .ok w => [.finished w]
    | .err _ => [.panicked "err"]
    | .panic s => [.panicked s]

/-- The specification machine: a cursor `k` (frames consumed) into the one-shot waveform `w` of an
    `n`-frame utterance with `fp` samples per frame. -/
def specOps {α : Type} (w : List α) (fp n : Nat) : Nat → List (GenOp × List α) → List (GenObs α)
  | _, [] => []
  | k, (.step _, buf) :: rest =>
    if k < n then
      if buf.length < fp then [.panicked "speech.rs:buffer shorter than fperiod"]
      else .stepped fp (((w.drop (k * fp)).take fp) ++ buf.drop fp) :: specOps w fp n (k + 1) rest
    else .stepped 0 buf :: specOps w fp n k rest
  | k, (.query, _) :: rest => .count k :: specOps w fp n k rest
  | k, (.finish, _) :: _ => [.finished (w.drop (k * fp))]

end Jb
