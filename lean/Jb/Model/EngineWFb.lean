/-
  A computable form of the well-formedness hypothesis of C01's totality theorem (`EngineWF`, `Jb/Proofs/Total.lean`):
  import-free, so that the driver can evaluate it on the very stage inputs of every pipeline case and record whether the
  case lies inside the theorem's hypothesis class. `Jb/Proofs/EngineWFb.lean` proves `engineWFb c inp = true → EngineWF c inp`.
-/
import Jb.Model.Engine

namespace Jb

/-- `StreamWF` (at least one window; every state carries `vectorLength × #windows` Gaussians), the stream has one state per
    duration Gaussian, and a GV switch — if there is one — covers every state -/
def streamWFb {α : Type} (nstates : Nat) (s : StreamIn α) : Bool :=
  decide (1 ≤ s.windows.length) &&
  s.stream.all (fun st => decide (s.vectorLength * s.windows.length ≤ st.params.length)) &&
  decide (s.stream.length = nstates) &&
  (match s.gv with
   | none => true
   | some (_, sw) => decide (nstates ≤ sw.length))

def engineWFb {α : Type} (c : Condition α) (inp : EngineIn α) : Bool :=
  (inp.nstream == 2 || inp.nstream == 3) &&
  decide (inp.streams.length = inp.nstream) &&
  inp.streams.all (streamWFb inp.duration.length) &&
  (match inp.streams[1]? with | some s => s.vectorLength == 1 | none => true) &&
  (match inp.streams[2]? with | some s => s.vectorLength % 2 == 1 | none => true) &&
  decide (inp.nstream ≤ c.gvWeight.length) &&
  decide (inp.nstream ≤ c.msdThreshold.length) &&
  (!c.alignment || (decide (0 < inp.nstate) && decide (inp.duration.length = inp.times.length * inp.nstate)))

end Jb
