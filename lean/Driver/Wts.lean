/-
  `vset`, `wset` (C19) and `wavg` (C10) ops.
-/
import Driver.Util
import Jb.Model.Weights

namespace Drv.Wts
open Drv Jb

def eps : Float := Float.ofBits 0x3CB0000000000000  -- f64::EPSILON = 2^-52

/-! ### vset -/

def parseVoiceMeta : P (List String × List (List String)) := do
  let g ← many 9 next
  let ns ← nat
  let ss ← many ns (many 5 next)
  pure (g, ss)

def runVset : P Verdict := do
  let k ← nat
  let vs ← many k parseVoiceMeta
  let res ← next
  let what ← next
  let m := match voiceSetNew vs with
    | .ok () => "ok"
    | .error .emptyVoice => "err:empty"
    | .error .metadataError => "err:metadata"
  let corr := check (m == res) s!"VoiceSet::new model={m} impl={res}"
  -- the statement: empty list and any metadata difference are rejected, identical metadata accepted
  let allSame := match vs with
    | [] => false
    | f :: rest => rest.all (· == f)
  let want := if k == 0 then "err:empty" else if allSame then "ok" else "err:metadata"
  let orc := check (res == want) s!"VoiceSet::new returned {res} for voices differing in {what}; expected {want}"
  pure { corr, oracle := orc, nontriv := k ≥ 2, cls := s!"k{k}:{what}" }

/-! ### wset -/

structure IWDump where
  dur : List Float
  par : List (List Float)
  gv : List (List Float)

def parseIW (ns : Nat) : P IWDump := do
  let dur ← listOf flt
  let par ← many ns (listOf flt)
  let gv ← many ns (listOf flt)
  pure { dur, par, gv }

def eqL (a b : List Float) : Bool := a.length == b.length && (a.zip b).all fun (x, y) => x == y || bitsEq x y
def bitsL (a b : List Float) : Bool := a.length == b.length && (a.zip b).all fun (x, y) => bitsEq x y
def bitsLL (a b : List (List Float)) : Bool := a.length == b.length && (a.zip b).all fun (x, y) => bitsL x y

def sameIW (m : IW Float) (d : IWDump) : Bool := bitsL m.duration d.dur && bitsLL m.parameter d.par && bitsLL m.gv d.gv
def sameDump (a b : IWDump) : Bool := bitsL a.dur b.dur && bitsLL a.par b.par && bitsLL a.gv b.gv

def runWset : P Verdict := do
  let nv0 ← nat; let ns ← nat; let nops ← nat
  let mut nv := nv0
  let d0 ← parseIW ns
  let mut iw : IW Float := IW.new nv ns
  let mut corr : Option String := check (sameIW iw d0) "default weights differ from 1/nvoices"
  let mut orc : Option String := none
  let mut prev := d0
  let mut classes : List String := []
  let mut nrej := 0
  let mut nacc := 0
  for _ in [0:nops] do
    let which ← next; let i ← nat; let w ← listOf flt; let kind ← next; let res ← next
    let d ← parseIW ns
    if which == "reload" then
      -- a voice set with `i` voices loaded into the condition in use: one weight per voice again, all equal
      nv := i
      iw := IW.new nv ns
      if corr.isNone then corr := check (sameIW iw d) s!"weights after loading a set of {i} voices differ from the model (1/{i} each)"
      if orc.isNone then
        orc := check (d.dur.length == i && d.par.all (·.length == i) && d.gv.all (·.length == i))
          s!"after loading a set of {i} voices the weight vectors do not have one weight per voice: duration {d.dur.length}, parameter {d.par.map (·.length)}, gv {d.gv.map (·.length)}"
      classes := s!"reload:{i}" :: classes
      prev := d
      continue
    let op : IWOp Float := if which == "dur" then .dur w else if which == "par" then .par i w else .gv i w
    let (mres, iw') := match IWOp.apply eps iw op with
      | .ok s => ("ok", s)
      | .err .invalidSum => ("err:sum", iw)
      | .err (.invalidLength _ _) => ("err:len", iw)
      | .panic _ => ("panic", iw)
    iw := iw'
    if corr.isNone then
      corr := firstSome [check (mres == res) s!"set_{which}({w}) model={mres} impl={res}",
                         check (sameIW iw d) s!"weights after set_{which} differ from the model"]
    -- the statement, on the implementation: accepted iff count = nvoices and the sum is 1
    let sum := w.foldl (· + ·) 0.0
    let sumOk := !sum.isNaN && fabs (sum - 1.0) ≤ eps
    let shouldAccept := sumOk && w.length == nv
    let expectD : IWDump :=
      if which == "dur" then { prev with dur := w }
      else if which == "par" then { prev with par := prev.par.set i w } else { prev with gv := prev.gv.set i w }
    if orc.isNone then
      orc := firstSome [
        check ((res == "ok") == shouldAccept) s!"set_{which}({w}) [{kind}] returned {res}; sum={sum} count={w.length} nvoices={nv}",
        check (res == "ok" || sameDump d prev) s!"a rejected update ({kind}) changed the weights in force",
        check (res != "ok" || sameDump d expectD) s!"an accepted update did not store exactly the given weights (or touched another vector)" ]
    if res == "ok" then nacc := nacc + 1 else nrej := nrej + 1
    classes := s!"{which}:{kind}:{res}" :: classes
    prev := d
  expect "synth"
  let same ← boolTok
  let _len ← nat
  if orc.isNone then
    orc := check same "synthesis after the history differs from synthesis with only the accepted updates applied"
  pure { corr, oracle := orc, nontriv := nacc ≥ 1 && nrej ≥ 1, cls := ",".intercalate classes.eraseDups }

/-! ### wavg -/

def parseMP : P (ModelParameter Float) := do
  let n ← nat
  let ps ← many n (do let m ← flt; let v ← flt; pure (⟨m, v⟩ : MeanVari Float))
  let f ← boolTok
  let msd ← if f then (some <$> flt) else pure none
  pure { parameters := ps, msd }

def mpFlat (p : ModelParameter Float) : List Float :=
  (p.parameters.map fun mv => [mv.mean, mv.vari]).flatten ++ (match p.msd with | some m => [m] | none => [])

def runWavg : P Verdict := do
  let nv ← nat; let ns ← nat
  let d ← parseIW ns
  let identical ← boolTok
  expect "sel"
  let which ← next; let i ← nat
  let ps ← many nv parseMP
  let got ← parseMP
  let ws := if which == "dur" then d.dur else if which == "par" then (d.par.getD i []) else (d.gv.getD i [])
  let (corr, bo, ba) := match weighted ws ps with
    | .ok m =>
      let a := mpFlat m; let b := mpFlat got
      (firstSome [check (a.length == b.length) s!"shape: model {a.length} values, impl {b.length}",
                  check (closeList 1e-12 1e-300 a b) s!"weighted {which} {i}: model={a} impl={b} weights={ws}"],
       countBits a b, a.length)
    | _ => (some "model panics (no voice or no weight)", 0, 0)
  -- the statement: plain weighted sum of what each voice selected, with the weight vector of that quantity
  let flats := ps.map mpFlat
  let width := (flats.headD []).length
  let plain : List Float := (List.range width).map fun j =>
    (ws.zip flats).foldl (fun acc (w, f) => acc + w * f.getD j 0.0) 0.0
  let g := mpFlat got
  let scale := maxAbs (flats.flatten)
  let vertex := match ws with | w :: rest => w == 1.0 && rest.all (· == 0.0) | [] => false
  let orc := firstSome [
    check (g.length == width) s!"{which} {i}: {g.length} values for a Gaussian of {width}",
    check (closeList 1e-12 (scale * 1e-3) plain g) s!"{which} {i}: not the weighted average: expected {plain} got {g} weights={ws}",
    -- "exactly" is equality of values: 1·(−0) + 0·y = +0 in IEEE arithmetic, so a negative zero may come back as +0
    check (!vertex || eqL g (flats.headD [])) s!"{which} {i}: weights (1,0,…) do not reproduce the first voice exactly",
    check (!identical || closeList 1e-12 (scale * 1e-3) (flats.headD []) g) s!"{which} {i}: blending identical voices changed the Gaussian" ]
  let distinct := (flats.eraseDups.length == flats.length)
  pure { corr, oracle := orc, nontriv := nv ≥ 2 && !vertex && (distinct || identical),
         cls := s!"{which}:nv{nv}:{if vertex then "vertex" else if identical then "identical" else "blend"}:{if got.msd.isSome then "msd" else "plain"}",
         bitsOk := bo, bitsAll := ba }

end Drv.Wts
