/-
  Driver utilities: token cursor, hex-bit floats, comparison policy, verdict lines.
  Import-free (core only) so that `jbdrv` links as a native executable.
-/
import Jb.Model.Scalar

namespace Drv

abbrev P := StateT (Array String × Nat) (Except String)

def next : P String := do
  let (toks, i) ← get
  if h : i < toks.size then
    set (toks, i + 1)
    pure toks[i]
  else throw "unexpected end of line"

def peek? : P (Option String) := do
  let (toks, i) ← get
  pure toks[i]?

def atEnd : P Bool := do
  let (toks, i) ← get
  pure (i ≥ toks.size)

def expect (s : String) : P Unit := do
  let t ← next
  if t != s then throw s!"expected '{s}' got '{t}'"

def nat : P Nat := do
  let t ← next
  match t.toNat? with
  | some n => pure n
  | none => throw s!"bad nat '{t}'"

def int : P Int := do
  let t ← next
  match t.toInt? with
  | some n => pure n
  | none => throw s!"bad int '{t}'"

def hexDigit (c : Char) : Option Nat :=
  if '0' ≤ c ∧ c ≤ '9' then some (c.toNat - '0'.toNat)
  else if 'a' ≤ c ∧ c ≤ 'f' then some (c.toNat - 'a'.toNat + 10)
  else if 'A' ≤ c ∧ c ≤ 'F' then some (c.toNat - 'A'.toNat + 10)
  else none

def hexToNat? (s : String) : Option Nat :=
  if s.isEmpty then none else
  s.foldl (fun acc c => match acc, hexDigit c with
    | some a, some d => some (a * 16 + d)
    | _, _ => none) (some 0)

def flt : P Float := do
  let t ← next
  match hexToNat? t with
  | some n => pure (Float.ofBits n.toUInt64)
  | none => throw s!"bad float bits '{t}'"

def boolTok : P Bool := do
  let t ← next
  if t == "1" then pure true else if t == "0" then pure false else throw s!"bad bool '{t}'"

def many {α} (n : Nat) (p : P α) : P (List α) := do
  let mut out : Array α := #[]
  for _ in [0:n] do
    out := out.push (← p)
  pure out.toList

/-- `n x1 … xn` -/
def listOf {α} (p : P α) : P (List α) := do
  let n ← nat
  many n p

def natToHex16 (n : Nat) : String :=
  let digits := "0123456789abcdef".toList.toArray
  let rec go (k : Nat) (n : Nat) (acc : List Char) : List Char :=
    match k with
    | 0 => acc
    | k + 1 => go k (n / 16) (digits[n % 16]! :: acc)
  String.ofList (go 16 n [])

def fhex (x : Float) : String := natToHex16 x.toBits.toNat

def fabs (x : Float) : Float := if x < 0 then -x else x
def fmaxF (a b : Float) : Float := if a < b then b else a

/-- Float comparison policy: same class; finite values within `rtol·max(|a|,|b|,scale)`. -/
def closeF (rtol scale a b : Float) : Bool :=
  if a.isNaN || b.isNaN then a.isNaN && b.isNaN
  else if a.isInf || b.isInf then a == b
  else fabs (a - b) ≤ rtol * fmaxF (fmaxF (fabs a) (fabs b)) scale

/-- value equality that identifies `-0.0` and `0.0` and NaNs. -/
def sameF (a b : Float) : Bool :=
  if a.isNaN || b.isNaN then a.isNaN && b.isNaN else a == b

def bitsEq (a b : Float) : Bool := a.toBits == b.toBits

def closeList (rtol scale : Float) (a b : List Float) : Bool :=
  a.length == b.length && (a.zip b).all (fun (x, y) => closeF rtol scale x y)

/-- first index where two lists are not close, with both values -/
def firstDiff (rtol scale : Float) (a b : List Float) : String :=
  match ((List.range a.length).zip (a.zip b)).find? (fun (_, (x, y)) => !closeF rtol scale x y) with
  | some (i, (x, y)) => s!"first at {i}: model={x} impl={y}"
  | none => "lengths"

def countBits (a b : List Float) : Nat :=
  ((a.zip b).filter (fun (x, y) => bitsEq x y)).length

def maxAbs (l : List Float) : Float := l.foldl (fun m x => fmaxF m (fabs x)) 0

/-- A verdict for one case. `corr` : model vs implementation; `oracle` : the property's own predicate
    evaluated on the implementation's output. -/
structure Verdict where
  corr    : Option String := none      -- none = agree
  oracle  : Option String := none      -- none = holds
  nontriv : Bool := true
  cls     : String := "-"              -- class / distinctness key
  known   : Option String := none      -- known-finding key when the failure matches one
  bitsOk  : Nat := 0
  bitsAll : Nat := 0

def sanitize (s : String) : String :=
  String.ofList (s.toList.map (fun c => if c == ' ' || c == '\n' then '_' else c))

def Verdict.render (v : Verdict) (idx : Nat) (op : String) : String :=
  let c := match v.corr with | none => "ok" | some d => "diff:" ++ sanitize d
  let o := match v.oracle with | none => "ok" | some d => "fail:" ++ sanitize d
  let k := match v.known with | none => "-" | some d => sanitize d
  s!"case {idx} op={op} corr={c} oracle={o} nontrivial={if v.nontriv then 1 else 0} class={if v.cls.isEmpty then "-" else sanitize v.cls} known={k} bits={v.bitsOk}/{v.bitsAll}"

def firstSome (l : List (Option String)) : Option String :=
  l.foldl (fun acc x => match acc with | some a => some a | none => x) none

def check (ok : Bool) (msg : String) : Option String := if ok then none else some msg

def unesc (s : String) : List Nat :=
  if s == "%" then [] else
  let rec go : List Char → List Nat
    | '%' :: a :: b :: rest =>
      match hexDigit a, hexDigit b with
      | some x, some y => (x * 16 + y) :: go rest
      | _, _ => 37 :: go (a :: b :: rest)
    | c :: rest => (String.singleton c).toUTF8.toList.map (·.toNat) ++ go rest
    | [] => []
  go s.toList

def unescStr (s : String) : String := String.ofList ((unesc s).map Char.ofNat)


end Drv
