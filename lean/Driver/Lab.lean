/-
  `lines` and `forms` ops (C17).
-/
import Driver.Util
import Jb.Model.Label

namespace Drv.Lab
open Drv Jb

/-- percent-unescape to bytes ("%" alone is the empty string) -/
def unesc (s : String) : List Nat :=
  if s == "%" then [] else
  let rec go : List Char → List Nat
    | '%' :: a :: b :: rest =>
      match hexDigit a, hexDigit b with
      | some x, some y => (x * 16 + y) :: go rest
      | _, _ => 37 :: go (a :: b :: rest)
    | c :: rest => (String.singleton c).toUTF8.toList.map (·.toNat) ++ go rest
    | [] => []
  go s.toList

def runForms : P Verdict := do
  let kind ← next; let n ← nat
  let e1 ← boolTok; let e2 ← boolTok; let e3 ← boolTok; let e4 ← boolTok; let e5 ← boolTok
  let gotEnd ← flt; let wantEnd ← flt
  let len ← nat
  let orc := firstSome [
    check e1 "owned vector of strings and string slice synthesize differently",
    check e2 "fixed-size array and slice synthesize differently",
    check e3 "already parsed labels and label strings synthesize differently",
    check e4 "blank lines changed the waveform",
    check e5 "time stamps changed the waveform although alignment is disabled",
    check (closeF 1e-12 1e-12 gotEnd wantEnd) s!"time stamp conversion: {gotEnd} frames, expected {wantEnd} (100 ns units)" ]
  pure { corr := none, oracle := orc, nontriv := len > 0, cls := s!"{kind}:n{n}" }

def runLines : P Verdict := do
  let kinds ← next
  let sr ← nat; let fp ← nat
  let nl ← nat
  let mut lines : List (List Nat) := []
  let mut table : List (List Nat × Bool × Float × Bool) := []
  let mut splitOk := true
  for _ in [0:nl] do
    let l := unesc (← next)
    let nt ← nat
    let mut toks : List (List Nat) := []
    for _ in [0:nt] do
      let t := unesc (← next)
      let fok ← boolTok; let fv ← flt; let lok ← boolTok
      table := (t, fok, fv, lok) :: table
      toks := toks ++ [t]
    if splitn3 l != toks then splitOk := false
    lines := lines ++ [l]
  let res ← next
  let mut implTimes : List (Float × Float) := []
  let res ← (if res == "ok" then do
      let _ ← nat
      let nt ← nat
      let ts ← many nt (do let a ← flt; let b ← flt; pure (a, b))
      pure ("ok", ts) else pure (res, []))
  implTimes := res.2
  let res := res.1
  let genRes ← next
  let parseF (t : List Nat) : Option Float := match table.find? (·.1 == t) with
    | some (_, true, v, _) => some v
    | _ => none
  let parseL (t : List Nat) : Option (List Nat) := match table.find? (·.1 == t) with
    | some (_, _, _, true) => some t
    | _ => none
  let rate : Float := timeRate sr fp
  let loaded := loadLines parseF parseL rate lines
  let m := match loaded with
    | .ok _ => "ok"
    | .error .jlabelParse => "err:jlabel"
    | .error .missingLabel => "err:missing"
    | .error .floatParse => "err:float"
    | .error .lengthMismatch => "err:length"
  -- the time stamps each label carries: the model's raw times after `Labels::new`'s gap filling
  let timesDiff : Option String := match loaded with
    | .ok xs =>
      if res != "ok" then none else
      let want := fillTimes (xs.map (·.2))
      if want.length != implTimes.length then some s!"{implTimes.length} time pairs, expected {want.length}"
      else
        let bad := (List.range want.length).find? fun i =>
          let (a, b) := want.getD i (0.0, 0.0); let (c, d) := implTimes.getD i (0.0, 0.0)
          !(closeF 1e-12 1e-300 a c && closeF 1e-12 1e-300 b d)
        bad.map fun i => s!"label {i} carries times {implTimes.getD i (0.0, 0.0)}, its line says {want.getD i (0.0, 0.0)} (frames)"
    | _ => none
  let corr := firstSome [check splitOk "splitn(3,' ') model differs from the implementation's split",
                         check (m == res) s!"load_from_strings model={m} impl={res}", timesDiff]
  -- the statement: every non-blank line must be a well-formed label line (LABEL, or START END LABEL with two
  -- numbers); anything else must be reported as an error
  let wellFormed (l : List Nat) : Bool :=
    l.isEmpty ||
    (match splitn3 l with
     | [a] => (parseL a).isSome
     | [a, b, c] => (parseF a).isSome && (parseF b).isSome && (parseL c).isSome
     | _ => false)
  let allWell := lines.all wellFormed
  let orc := firstSome [
    timesDiff.map (fun d => s!"time stamps attached to the wrong label or in the wrong unit: {d}"),
    check (allWell || res != "ok") "a line that is not a well-formed label line was accepted instead of being reported as an error",
    check (!allWell || res == "ok") s!"well-formed label lines were rejected: {res}",
    check (!res.startsWith "panic") s!"label text caused a panic: {res}",
    check (genRes != "gen-panic") "Engine::generator panicked on label text",
    check ((res == "ok") == (genRes == "gen-ok")) s!"Engine::generator ({genRes}) disagrees with Labels::load_from_strings ({res})" ]
  pure { corr, oracle := orc, nontriv := true, cls := s!"{kinds}:{res}" }

/-- `units`: time stamps are 100 ns units at the engine's CURRENT rate and frame period, whatever setter history
    produced them; two histories ending in the same values synthesize identically (C17 units, C03 history, C09 law). -/
def runUnits : P Verdict := do
  let kind ← next
  let sr ← nat; let fp ← nat; let nstate ← nat; let nlab ← nat; let frames ← nat
  let lastSet ← next
  let len1 ← int; let len2 ← int; let same ← boolTok
  let want : Int := (fp * frames : Nat)
  let orc := firstSome [
    check (len1 ≥ 0 && len2 ≥ 0) "synthesis of time-stamped label strings failed",
    check (len1 == want) s!"alignment on, rate {sr}, frame period {fp} ({lastSet}): the stamps end at frame {frames}, so {want} samples are due; the engine returned {len1} (time stamps are 100 ns units at the current rate and frame period)",
    check (len2 == want) s!"alignment on, rate {sr}, frame period {fp} (other history): {want} samples are due; the engine returned {len2}",
    check same "two setter histories ending in the same rate and frame period synthesize the same time-stamped labels differently" ]
  pure { corr := none, oracle := orc, nontriv := nlab ≥ 1 && nstate ≥ 1, cls := s!"units:{kind}:{lastSet}" }

end Drv.Lab

namespace Drv.Det
open Drv

def runDet : P Verdict := do
  let kind ← next; let k ← nat
  let rep ← boolTok; let cl ← boolTok; let thr ← boolTok; let il ← boolTok; let same ← boolTok
  let overlaps ← nat
  let orc := firstSome [
    check rep "repeating a synthesis call gave a different waveform",
    check cl "a cloned engine gave a different waveform",
    check thr s!"concurrent calls from {k} threads on one shared engine gave a waveform different from the sequential one",
    check il "interleaving live generators and syntheses changed an output",
    check same "a synthesis call changed the engine's observable settings" ]
  pure { corr := none, oracle := orc, nontriv := overlaps > 0, cls := s!"{kind}:k{k}" }

/-- `clones n waves stateDiffs waveDiffs firstBadVolume`: copies of an engine (clone, `Engine::new` from the parts) under
    `n` random settings -/
def runClones : P Verdict := do
  let n ← nat; let waves ← nat; let sd ← nat; let wd ← nat; let v ← flt
  let orc := firstSome [
    check (wd == 0) s!"a copy of the engine (clone / Engine::new from its parts) synthesizes a different waveform at volume {v} dB ({wd} of {waves} waveforms compared)",
    check (sd == 0) s!"a copy of the engine (clone / Engine::new from its parts) holds different settings than the original, first at volume {v} dB ({sd} of {n} settings)" ]
  pure { corr := none, oracle := orc, nontriv := n > 0, cls := "clones" }

def runHist : P Verdict := do
  let kind ← next
  let g ← boolTok; let w ← boolTok
  let orc := firstSome [
    check g "two setter histories ending in the same values leave different settings",
    check w "two setter histories ending in the same values synthesize differently" ]
  pure { corr := none, oracle := orc, nontriv := true, cls := s!"hist:{kind}" }

/-- `shist <name> <before> <after> <history>`: emitted by the harness only when a sequence of setter / loader calls that
    must leave setting `name` alone (each call of the sequence sets another setting, or sets and restores it) changed what
    the getter returns. Every engine-path property is stated in terms of the values the caller set, so this is a failure
    of the property whose check drew the history. -/
def runSetterHist : P Verdict := do
  let name ← next
  let b ← next; let a ← next
  let h ← next
  pure { corr := none,
         oracle := some s!"setter history: '{name}' was {b} and reads {a} after calls that do not concern it: {h}",
         nontriv := true, cls := s!"shist:{name}" }

/-- `shistok <n> <tag>`: `n` setter / loader histories left every setting they do not concern alone -/
def runSetterHistOk : P Verdict := do
  let n ← nat
  let tag ← next
  pure { corr := none, oracle := none, nontriv := n > 0, cls := s!"setter-histories:{tag}" }

end Drv.Det
