/-
  `htsmeta`, `hts` (C04) and `htsf` (C18): the driver reads the voice file itself and runs the Lean
  reader (`Jb.Hts.parseVoice`); for `hts` it walks the *file's own* trees with wildcard matching
  (`getParameter`, the specification path) and compares tree / PDF indices and every float32 entry
  bit for bit with what the implementation handed out.
-/
import Jb.Model.Supported
import Driver.Util
import Jb.Model.HtsParse
import Jb.Model.Synth
import Driver.C20

namespace Drv.HtsOp
open Drv Jb Jb.Hts

def widen (b : UInt32) : Float := (Float32.ofBits b).toFloat

structure Entry where
  tree : Nat
  pdf : Nat
  params : List (Float × Float)
  msd : Option Float

inductive ImplEntry where
  | e (x : Entry)
  | none
  | panic (site : String)

def parseEntry : P ImplEntry := do
  let t ← next
  match t with
  | "e" =>
    let tr ← nat; let pd ← nat
    let n ← nat
    let ps ← many n (do let a ← flt; let b ← flt; pure (a, b))
    let f ← boolTok
    let msd ← if f then (some <$> flt) else pure Option.none
    pure (.e { tree := tr, pdf := pd, params := ps, msd })
  | "none" => pure .none
  | _ => pure (.panic (← next))

/-- the specification's answer vs the implementation's -/
def cmpEntry (what : String) (m : FileModel) (state : Nat) (label : List Char) (i : ImplEntry) : Option String :=
  match getParameter m state label, i with
  | some (t, k, p), .e x =>
    let means := p.means.map widen; let varis := p.varis.map widen
    firstSome [
      check (t == x.tree) s!"{what} state {state}: tree index {x.tree}, file says {t}",
      check (k == x.pdf) s!"{what} state {state}: PDF {x.pdf} selected, the file's tree selects {k}",
      check (x.params.length == means.length) s!"{what} state {state}: {x.params.length} Gaussians, file has {means.length}",
      check ((x.params.zip (means.zip varis)).all fun ((a, b), (c, d)) => bitsEq a c && bitsEq b d)
        s!"{what} state {state}: means/variances are not bit-equal to the float32 entries of PDF {k}",
      check (match x.msd, p.msd with
             | some a, some b => bitsEq a (widen b)
             | Option.none, Option.none => true
             | _, _ => false) s!"{what} state {state}: voicing weight differs from the file" ]
  | Option.none, .none => none
  | Option.none, .panic _ => none
  | Option.none, .e _ => some s!"{what} state {state}: the file's tree selects nothing, implementation returned a Gaussian"
  | some _, .none => some s!"{what} state {state}: implementation found no tree/PDF"
  | some _, .panic s => some s!"{what} state {state}: implementation panicked at {s}"

/-- number of question nodes visited on the way (for the non-triviality rule) -/
def depth (qs : Questions) (rows : List Row) (label : List Char) : Nat → Child → Nat
  | _, .pdf _ => 0
  | 0, .node _ => 0
  | fuel + 1, .node id =>
    match findRow rows id with
    | Option.none => 0
    | some r => match lookupQ qs r.qname with
      | Option.none => 0
      | some pats => 1 + depth qs rows label fuel (if questionTest pats label then r.yes else r.no)

def runHts (pv : ParsedVoice) : P Verdict := do
  let label := (unesc (← next)).map Char.ofNat
  let mut fails : List (Option String) := []
  let d ← parseEntry
  fails := cmpEntry "duration" pv.duration 2 label d :: fails
  let ns ← nat
  let mut maxDepth := 0
  let mut leaves : List String := []
  for si in [0:ns] do
    let nst ← nat
    let s := pv.streams.getD si { name := "?", info := ⟨0, 0, false, false, []⟩, model := ⟨[], [], []⟩, gv := Option.none, windows := [] }
    for k in [0:nst] do
      let e ← parseEntry
      fails := cmpEntry s!"stream {si}" s.model (k + 2) label e :: fails
      match s.model.trees.find? (·.state == k + 2) with
      | some t =>
        match t.rows with
        | r :: _ => maxDepth := max maxDepth (depth s.model.questions t.rows label (t.rows.length + 1) (.node r.id))
        | [] => pure ()
      | Option.none => pure ()
      match e with
      | .e x => leaves := s!"{si}.{k}.{x.pdf}" :: leaves
      | _ => pure ()
    let g ← boolTok
    if g then
      let e ← parseEntry
      match s.gv with
      | some gm => fails := cmpEntry s!"gv {si}" gm 2 label e :: fails
      | Option.none => fails := some s!"stream {si}: implementation has a GV model, the file declares none" :: fails
  let res := firstSome fails.reverse
  -- here the model *is* the independent reading of the file, so correspondence and oracle coincide
  pure { corr := res, oracle := res, nontriv := maxDepth ≥ 2,
         cls := s!"depth{min maxDepth 6}:" ++ ",".intercalate (leaves.take 3) }

def parseFloatText (s : String) : Float :=
  -- decimal text of a window coefficient / option value; value-level comparison only
  let neg := s.startsWith "-"
  let t := if neg then s.drop 1 else s
  let parts := t.toString.splitOn "."
  let ip := (parts.getD 0 "0")
  let fp := (parts.getD 1 "")
  let digits := ip ++ fp
  let m := digits.toNat?.getD 0
  let v := Float.ofScientific m true fp.length
  if neg then -v else v

def runMeta (pv : ParsedVoice) : P Verdict := do
  let sr ← nat; let fp ← nat; let nst ← nat; let nsm ← nat
  let stype := unescStr (← next); let ver := unescStr (← next); let fmt := unescStr (← next); let fver := unescStr (← next)
  let ns ← nat
  let g := pv.global
  let mut fails : List (Option String) := [
    check (g.sr == sr) s!"sampling frequency {sr}, file says {g.sr}",
    check (g.fp == fp) s!"frame period {fp}, file says {g.fp}",
    check (g.nstates == nst) s!"states {nst}, file says {g.nstates}",
    check (g.nstreams == nsm) s!"streams {nsm}, file says {g.nstreams}",
    check (",".intercalate g.streamType == stype) s!"stream types {stype}, file says {g.streamType}",
    check (g.version == ver && g.fmt == fmt && g.fver == fver) "version / full-context strings differ from the file",
    check (ns == pv.streams.length) s!"{ns} stream models, file declares {pv.streams.length}" ]
  let mut alphaOpt : Option Float := Option.none
  let mut stageOpt : Option String := Option.none
  let mut lgOpt : Option String := Option.none
  for si in [0:ns] do
    let vl ← nat; let nw ← nat; let msd ← boolTok; let gv ← boolTok
    let opt := unescStr (← next)
    let nwin ← nat
    let wins ← many nwin (listOf flt)
    let s := pv.streams.getD si { name := "?", info := ⟨0, 0, false, false, []⟩, model := ⟨[], [], []⟩, gv := Option.none, windows := [] }
    fails := fails ++ [
      check (s.info.veclen == vl && s.info.nwin == nw && s.info.isMsd == msd && s.info.useGv == gv) s!"stream {si}: metadata differs from the file",
      check (",".intercalate s.info.option == opt) s!"stream {si}: options {opt}, file says {s.info.option}",
      check (wins.length == s.windows.length) s!"stream {si}: {wins.length} windows, file lists {s.windows.length}",
      check ((wins.zip s.windows).all fun (w, ws) => w.length == ws.length &&
              (w.zip ws).all fun (x, t) => closeF 1e-15 1e-300 x (parseFloatText t)) s!"stream {si}: window coefficients differ from the file" ]
    if si == 0 then
      for o in s.info.option do
        if o.startsWith "ALPHA=" then alphaOpt := some (parseFloatText (o.drop 6).toString)
        if o.startsWith "GAMMA=" then stageOpt := some (o.drop 6).toString
        if o.startsWith "LN_GAIN=" then lgOpt := some (o.drop 8).toString
  expect "engine"
  let esr ← nat; let efp ← nat; let ealpha ← flt; let evol ← flt; let espeed ← flt
  let estage := unescStr (← next); let elg := unescStr (← next)
  let wantStage := stageOpt.getD "0"
  let wantLg := if lgOpt == some "1" then "true" else "false"
  fails := fails ++ [
    check (estage == "unknown" || estage.toNat? == wantStage.toNat?) s!"engine default gamma stage {estage}, header says {wantStage}",
    check (elg == "unknown" || elg == wantLg) s!"engine default log-gain flag {elg}, header says {wantLg} (options of stream 0 in file order: {(pv.streams.getD 0 { name := "?", info := ⟨0, 0, false, false, []⟩, model := ⟨[], [], []⟩, gv := Option.none, windows := [] }).info.option})" ]
  fails := fails ++ [
    check (esr == g.sr) s!"engine default sampling rate {esr}, header {g.sr}",
    check (efp == g.fp) s!"engine default frame period {efp}, header {g.fp}",
    check (closeF 1e-15 1e-300 ealpha (alphaOpt.getD 0.0)) s!"engine default alpha {ealpha}, header {alphaOpt.getD 0.0}",
    check (evol == 0.0 && espeed == 1.0) "fresh engine volume/speed" ]
  let res := firstSome fails
  pure { corr := res, oracle := res, nontriv := true, cls := s!"meta:ns{ns}:nst{nst}" }

/-- `htsf`: one faulted file. `pv` is the Lean reader's outcome (`none` when the file was too large to
    be handed to it). -/
def runFault (pv : Option (Res ParsedVoice)) : P Verdict := do
  let kind := unescStr (← next)
  let res ← next
  let mut implClass := res
  let mut digest : List Nat := []
  let mut detail := ""
  if res == "ok" then
    digest := [← nat, ← nat, ← nat]
  else
    detail := unescStr (← next)
  let ms ← nat
  let orc := firstSome [
    check (res != "panic") s!"loading a malformed voice ({kind}) panicked at {detail}",
    check (ms < 5000) s!"loading a malformed voice ({kind}) took {ms} ms" ]
  let (corr, drift) : Option String × Bool := match pv with
    | Option.none => (Option.none, false)
    | some (.panic s) => (some s!"the guarded Lean reader reports a panic site {s}", false)
    | some (.ok v) =>
      if res == "ok" then
        (check (digest == [v.global.nstates, v.global.nstreams, v.global.sr]) s!"loaded metadata {digest} differs from the file ({v.global.nstates}, {v.global.nstreams}, {v.global.sr})", false)
      else if res == "panic" then (some s!"implementation panics at {detail}; the reader accepts the file", false)
      else (Option.none, true)
    | some (.err _) =>
      if res == "panic" then (some s!"implementation panics at {detail}; the reader rejects the file with an error", false)
      else (Option.none, res == "ok")
  let _ := implClass
  let baseKind := (kind.splitOn "+").map (fun k => match k.splitOn ":" with | [a, _, c] => a ++ ":" ++ c | _ => k)
  pure { corr, oracle := orc, nontriv := kind != "none",
         cls := ",".intercalate (baseKind.map fun k => s!"{k}:{res}{if drift then ":drift" else ""}") }

instance : FromFile Float where
  ofF32 b := (Float32.ofBits b).toFloat
  ofDecimal s := parseFloatText s

/-- does the voice set lie in the hypothesis class of the capstone theorem `bytes_synth_total` (C01)? The computable check
    `supportedVoice` / `compatibleVoice` of `Jb/Model/Supported.lean`, run on the very files of the case. -/
def supportedTag (voices : List Jb.Hts.ParsedVoice) : String :=
  match voices with
  | [] => "novoice"
  | v0 :: _ =>
    if voices.all (fun v => Jb.Hts.supportedVoice v && Jb.Hts.compatibleVoice v0 v) then "supported" else "UNSUPPORTED"

/-- `e2e`: the whole library from the voice files: header defaults, setter history, tree selection with
    wildcard questions, interpolation, durations, MLPG+GV, vocoder — against `Engine::synthesize`. -/
def runE2e (voices : List ParsedVoice) : P Verdict := do
  let kind ← next
  let nv ← nat; let ns ← nat
  let dur ← listOf flt
  let par ← many ns (listOf flt)
  let gv ← many ns (listOf flt)
  let iw : IW Float := { nvoices := nv, duration := dur, parameter := par, gv := gv }
  expect "nops"
  let k ← nat
  let ops ← many k Drv.C20.parseOp
  let nl ← nat
  let labels ← many nl (do pure ((unesc (← next)).map Char.ofNat))
  let times ← listOf (do let a ← flt; let b ← flt; pure (a, b))
  let res ← next
  let big : Float := Float.ofBits 0x7FEFFFFFFFFFFFFF
  let m := Synth.synthesize Fix.repaired big voices iw ops (fun c => c.speed == 1.0) labels times
  if res == "ok" then
    let w ← listOf flt
    let corr := match m with
      | .ok mw =>
        let scale := maxAbs w
        let finite := w.all fun x => !x.isNaN && !x.isInf
        firstSome [check (mw.length == w.length) s!"samples: model {mw.length} impl {w.length}",
                   check (!finite || scale > 1e100 || closeList 1e-6 scale mw w) s!"waveform differs beyond 1e-6·peak (peak {scale}) {firstDiff 1e-6 scale mw w}"]
      | .panic s => some s!"model panics at {s}; implementation returns {w.length} samples"
      | .err _ => some "model err"
    let (bo, ba) := match m with | .ok mw => (countBits mw w, w.length) | _ => (0, 0)
    pure { corr, oracle := none, nontriv := nl ≥ 1, cls := s!"{kind}:nv{nv}:ops{min k 3}:{supportedTag voices}", bitsOk := bo, bitsAll := ba }
  else
    let detail ← next
    let corr := match m with
      | .ok _ => some s!"implementation {res} ({detail}); model returns a waveform"
      | _ => none
    pure { corr, oracle := some s!"synthesis failed: {res} {detail}", nontriv := true, cls := s!"{kind}:fail" }

end Drv.HtsOp
