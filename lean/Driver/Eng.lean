/-
  Engine-level metamorphic ops: `thr` (C11), `ht` (C15), `vol` (C16), `gvv` (C12).
  They carry implementation observations of several runs of the real engine; the oracle is the
  property's statement, and the model side is the corresponding definitions of Jb/Model
  (`maskCreate`, `applyHalfTone`, `Condition.setVolume`), evaluated on the same inputs.
-/
import Driver.Util
import Jb.Model.Engine
import Jb.Model.Htsvoice

namespace Drv.Eng
open Drv Jb

def nodata : Float := -1e10

/-! ### thr -/
def runThr : P Verdict := do
  let kind ← next
  let t1 ← flt; let t2 ← flt
  let ns ← nat
  let msd ← many ns flt
  let durs ← listOf nat
  let st ← next
  if st != "ok" then
    let msg ← next
    return { corr := none, oracle := some s!"generator failed: {msg}", cls := kind }
  let lf0A ← listOf flt; let lf0B ← listOf flt
  let sameC ← boolTok; let sameD ← boolTok
  -- model: the mask of stream 1 under each threshold
  let stream : List (StateParam Float) := msd.map fun m => { params := [], msd := m }
  let mA := maskCreate stream t1 durs
  let mB := maskCreate stream t2 durs
  let vA := lf0A.map (· != nodata); let vB := lf0B.map (· != nodata)
  let corr := firstSome [check (mA == vA) "voiced pattern at the lower threshold differs from the model mask",
                         check (mB == vB) "voiced pattern at the higher threshold differs from the model mask"]
  -- the statement on the implementation
  let stateOf : List Nat := expand (List.range ns) durs
  let want (t : Float) : List Bool := stateOf.map fun k => decide (msd.getD k 0.0 > t)
  let orc := firstSome [
    check (vA == want t1) s!"voiced frames are not exactly those whose voicing weight exceeds the threshold {t1}",
    check (vB == want t2) s!"voiced frames are not exactly those whose voicing weight exceeds the threshold {t2}",
    check ((vA.zip vB).all fun (a, b) => !b || a) s!"raising the threshold {t1} -> {t2} turned an unvoiced frame voiced",
    check sameC "changing stream 0's (and 2's) threshold / GV weight changed the log-F0 trajectory",
    check sameD "changing stream 1's threshold / GV weight changed the spectrum or low-pass trajectory" ]
  let nvA := (vA.filter id).length; let nvB := (vB.filter id).length
  pure { corr, oracle := orc, nontriv := nvA > 0 && nvA < vA.length,
         cls := s!"{kind}:{if nvA == nvB then "same" else "shrinks"}:{if nvB == 0 then "B-unvoiced" else "B-voiced"}" }

/-! ### ht -/
def halfTone : Float := Float.ofBits 0x3FAD9303FEA2F7EA
def minLf0 : Float := Float.ofBits 0x4007F7427B73E391
def maxLf0 : Float := Float.ofBits 0x4023CE95EBA4F8B4

def runHt : P Verdict := do
  let kind ← next
  let h ← flt
  let ns ← nat
  let means ← many ns flt
  let st ← next
  if st != "ok" then
    let msg ← next
    return { corr := none, oracle := some s!"generator failed: {msg}", cls := kind }
  let l0 ← listOf flt; let lh ← listOf flt
  let sameSp ← boolTok; let sameLpf ← boolTok; let sameLf0 ← boolTok
  -- model: static means after `applyHalfTone`
  let stream : List (StateParam Float) := means.map fun m => { params := [⟨m, 1.0⟩], msd := 1.0 }
  let shifted := (applyHalfTone stream h).map fun s => (s.params.headD ⟨0, 0⟩).mean
  let clampActive := (means.zip shifted).any fun (m, s) => s != m + h * halfTone
  let corr : Option String := none
  let delta := h * halfTone
  let orc := firstSome [
    check (l0.length == lh.length) "additional half tone changed the number of frames (durations)",
    check ((l0.zip lh).all fun (a, b) => (a == nodata) == (b == nodata)) "additional half tone changed the voiced/unvoiced pattern",
    check sameSp "additional half tone changed the spectral trajectory",
    check sameLpf "additional half tone changed the low-pass trajectory",
    check (h != 0.0 || sameLf0) "h = 0 is not the identity on log-F0",
    check (clampActive || (l0.zip lh).all fun (a, b) => a == nodata || a.isNaN || closeF 1e-6 1.0 (b - a) delta)
      s!"log-F0 of a voiced frame did not move by h·ln2/12 = {delta} (h = {h})" ]
  -- (removed: "clamped log-F0 far outside the limits". The limit of C15 is on the shifted state means; the generated
  --  trajectory — dynamic features, GV at weights up to 2 — may overshoot it by more than the margin this clause allowed,
  --  and the property does not bound it. It fired on the unchanged code in the thorough tier: a false alarm of the oracle.)
  let voiced := (l0.filter (· != nodata)).length
  pure { corr, oracle := orc, nontriv := h != 0.0 && voiced ≥ 1,
         cls := s!"{kind}:{if h == 0.0 then "zero" else if clampActive then "clamped" else if h > 0.0 then "up" else "down"}" }

/-! ### vol -/
def runVol : P Verdict := do
  let kind ← next
  let v ← flt; let got ← flt
  let gettersSame ← boolTok
  let st ← next
  if st != "ok" then return { corr := none, oracle := some "synthesis failed", cls := kind }
  let w0 ← listOf flt; let wv ← listOf flt
  -- model: Condition.setVolume / getVolume
  let c : Condition Float := (Condition.default.loadModel 48000 240 3 none none none).setVolume v
  let corr := check (closeF 1e-12 1e-12 c.getVolume got) s!"get_volume model={c.getVolume} impl={got}"
  let g := Float.pow 10.0 (v / 20.0)
  let orc := firstSome [
    check (w0.length == wv.length) "volume changed the number of samples",
    check ((w0.zip wv).all fun (a, b) => closeF 1e-12 1e-300 b (g * a)) s!"samples at {v} dB are not 10^(v/20) = {g} times the 0 dB samples",
    check (closeF 1e-9 1e-9 got v) s!"get_volume returned {got} after set_volume({v})",
    check gettersSame "set_volume changed another setting" ]
  pure { corr, oracle := orc, nontriv := v != 0.0, cls := s!"{kind}:{if v < 0.0 then "neg" else "pos"}" }

/-! ### gvv -/
def runGvv : P Verdict := do
  let kind ← next
  let stream ← nat
  let np ← nat
  let pats ← many np (do pure ((unesc (← next)).map Char.ofNat))
  let nstate ← nat
  let nl ← nat
  let labels ← many nl (do pure ((unesc (← next)).map Char.ofNat))
  let nsw ← nat
  let sw ← many nsw boolTok
  let ws ← listOf flt
  let gvMean ← listOf flt
  let nel ← nat
  let vars ← many ws.length (listOf flt)
  let mlEqual ← boolTok
  let lpfSame ← boolTok
  let mut orc : Option String := none
  -- the per-state GV switch is exactly "label outside the voice's GV-off contexts" (Synth.modelsGv)
  let expected := (labels.map fun l => List.replicate nstate (!(Hts.questionTest pats l))).flatten
  if expected != sw then
    let k := ((List.range (max expected.length sw.length)).find? fun i => expected[i]? != sw[i]?).getD 0
    orc := some s!"GV switch of state {k} (label {k / (max nstate 1)}: {String.ofList (labels.getD (k / (max nstate 1)) [])}) is {sw[k]?}, but the voice's GV-off contexts make it {expected[k]?}"
  if nel ≥ 100 then
    for (w, v) in ws.zip vars do
      for (k, (x, gm)) in (List.range v.length).zip (v.zip gvMean) do
        let ratio := x / (w * gm)
        if orc.isNone && !(ratio ≥ 0.8 && ratio ≤ 1.2) then
          orc := some s!"stream {stream} coefficient {k}: variance {x} over {nel} eligible frames is {ratio} × gv_weight·gv_mean ({w}·{gm})"
    -- monotone in the weight
    for ((_, va), (_, vb)) in (ws.zip vars).zip ((ws.zip vars).drop 1) do
      for (k, (a, b)) in (List.range va.length).zip (va.zip vb) do
        if orc.isNone && !(a ≤ b) then
          orc := some s!"stream {stream} coefficient {k}: variance does not grow with the GV weight ({a} then {b})"
  if nel == 0 && orc.isNone then
    orc := check mlEqual "no eligible frame, but the trajectory differs from the plain ML solution"
  if orc.isNone then orc := check lpfSame "a stream without GV changed with its GV weight"
  pure { corr := none, oracle := orc, nontriv := nel ≥ 100 || nel == 0,
         cls := s!"{kind}:s{stream}:{if nel == 0 then "none-eligible" else if nel ≥ 100 then "ge100" else "few"}" }

end Drv.Eng
