/-
  `dur` (C08) and `align` (C09) ops.
  dur   n (mean vari)×n  s s2  | three implementation outcomes: create(1.0) create(s) create(s2)
  align n nstate (mean vari)×(n·nstate) sr fp  (start end)×n (raw, 100ns units or -1)  |
        impl: filled times (start end)×n , outcome of create_with_alignment
-/
import Driver.Util
import Jb.Model.Duration

namespace Drv.Dur
open Drv Jb

inductive Out where
  | ok (d : List Nat)
  | panic (site : String)
  deriving BEq, Repr

def parseOut : P Out := do
  let t ← next
  if t == "ok" then return .ok (← listOf nat)
  else if t == "panic" then return .panic (← next)
  else throw s!"bad outcome {t}"

def ofModel : Outcome Unit (List Nat) → Out
  | .ok d => .ok d
  | .err _ => .panic "err"
  | .panic s => .panic s

def sameOut (m i : Out) : Bool :=
  match m, i with
  | .ok a, .ok b => a == b
  | .panic _, .panic _ => true
  | _, _ => false

def showOut : Out → String
  | .ok d => s!"ok{d}"
  | .panic s => s!"panic:{s}"

def parseMV : P (MeanVari Float) := do
  let m ← flt; let v ← flt; pure ⟨m, v⟩

def rmax1 (x : Float) : Nat := RoundNat.roundMax1 x

def runDur : P Verdict := do
  let n ← nat
  let ps ← many n parseMV
  let s ← flt; let s2 ← flt
  let i1 ← parseOut; let is ← parseOut; let is2 ← parseOut
  let m1 := ofModel (durationCreate ps 1.0 true)
  let ms := ofModel (durationCreate ps s (s == 1.0))
  let ms2 := ofModel (durationCreate ps s2 (s2 == 1.0))
  let corr := firstSome [
    check (sameOut m1 i1) s!"create(1.0): model={showOut m1} impl={showOut i1}",
    check (sameOut ms is) s!"create({s}): model={showOut ms} impl={showOut is}",
    check (sameOut ms2 is2) s!"create({s2}): model={showOut ms2} impl={showOut is2}" ]
  -- the property's statement on the implementation's vectors
  let orc := match i1, is, is2 with
    | .ok d1, .ok ds, .ok ds2 =>
      let f1 := d1.sum
      let want (sp : Float) : Nat := if sp == 1.0 then f1 else max (rmax1 (f1.toFloat / sp)) n
      firstSome [
        check (d1 == ps.map (fun p => rmax1 p.mean)) s!"speed 1: durations {d1} are not max(1, round(mean))",
        check (ds.length == n && ds2.length == n) "number of states changed",
        check (ds.all (· ≥ 1) && ds2.all (· ≥ 1) && d1.all (· ≥ 1)) "a state lasts less than one frame",
        check (ds.sum == want s) s!"total at speed {s} is {ds.sum}, expected max(round({f1}/{s}),{n}) = {want s}",
        check (ds2.sum == want s2) s!"total at speed {s2} is {ds2.sum}, expected {want s2}",
        check (if s ≤ s2 then ds2.sum ≤ ds.sum else ds.sum ≤ ds2.sum) s!"total not non-increasing in speed: {ds.sum}@{s} vs {ds2.sum}@{s2}" ]
    | _, _, _ => some s!"create panicked: {showOut i1} {showOut is} {showOut is2}"
  -- class: which branch the speed-s call takes
  let cls := match i1 with
    | .ok d1 =>
      let f1 := d1.sum
      let target := rmax1 (f1.toFloat / s)
      if s == 1.0 then "speed1"
      else if target ≤ n then "floor"
      else
        let mv := sumMeanVari ps
        let rho := (target.toFloat - mv.mean) / mv.vari
        let s0 := (estimateDuration ps rho).sum
        if s0 == target then "exact" else if s0 < target then "up" else "down"
    | _ => "panic"
  let trivial := match i1, is with
    | .ok d1, .ok ds => s == 1.0 || ds.sum == d1.sum
    | _, _ => false
  pure { corr, oracle := orc, nontriv := !trivial, cls := s!"{cls}:n{if n < 5 then "<5" else if n < 50 then "<50" else ">=50"}" }

/-- `durE n (mean vari)×n s fp rate | ok samples | err e | panic site` — engine level: `Engine::synthesize` under output-setting
    overrides returns `fp × max(round(F1/s), n)` samples (the speed reaches the estimator unchanged). -/
def runDurE : P Verdict := do
  let n ← nat
  let ps ← many n parseMV
  let s ← flt; let fp ← nat; let rate ← nat
  let t ← next
  let impl : Option Nat ← (if t == "ok" then do let k ← nat; pure (some k) else do let _ ← next; pure none)
  let m := ofModel (durationCreate ps s (s == 1.0))
  let f1 := (ps.map (fun p => rmax1 p.mean)).sum
  let want : Nat := fp * (if s == 1.0 then f1 else max (rmax1 (f1.toFloat / s)) n)
  let corr := match m, impl with
    | .ok d, some k => check (fp * d.sum == k) s!"synthesize returned {k} samples, model {fp}×{d.sum} (speed {s}, frame period {fp}, rate {rate})"
    | _, none => some s!"synthesize failed: {t}"
    | .panic site, _ => some s!"model panics at {site}"
  let orc := match impl with
    | some k => check (k == want) s!"{k} samples at speed {s}, frame period {fp}, rate {rate}: expected {fp} × max(round({f1}/{s}), {n}) = {want}"
    | none => some s!"synthesize failed: {t}"
  pure { corr, oracle := orc, nontriv := s != 1.0 && want != fp * f1, cls := s!"engine:fp{if fp == 240 then "=voice" else "≠voice"}:rate{if rate == 48000 then "=voice" else "≠voice"}" }

def parseTime : P (Float × Float) := do
  let a ← flt; let b ← flt; pure (a, b)

def sameTimes (a b : List (Float × Float)) : Bool :=
  a.length == b.length && (a.zip b).all fun (x, y) => sameF x.1 y.1 && sameF x.2 y.2

/-- C09 oracle on the implementation's durations `d` for filled times `ft` (frames), `nstate` states per label. -/
def alignOracle (nstate : Nat) (ps : List (Jb.MeanVari Float)) (ft : List (Float × Float)) (d : List Nat) : Option String := Id.run do
  let n := ft.length
  if d.length != n * nstate then
    return some s!"{n} labels × {nstate} states but {d.length} state durations returned (labels vanished)"
  if !d.all (· ≥ 1) then return some "a state lasts less than one frame"
  -- cumulative law per known end
  let mut frames := 0      -- frames before the current group
  let mut groupStart := 0  -- first label of the current group
  for i in [0:n] do
    let e := (ft.getD i (0, 0)).2
    if e ≥ 0.0 then
      let m := (i + 1 - groupStart) * nstate
      let upto := ((d.take ((i + 1) * nstate)).sum)
      -- the statement's own form: frames through the label = round(end), unless the group cannot fit
      let r := e.round.toUSize.toNat
      if r ≥ frames + m then
        if upto != r then
          return some s!"label {i}: {upto} frames up to its end, expected round({e}) = {r}"
      else
        let grp := (d.drop (groupStart * nstate)).take m
        if !grp.all (· == 1) then
          return some s!"label {i}: group cannot fit ({r} < {frames}+{m}), every state must get exactly 1 frame, got {grp}"
      frames := upto
      groupStart := i + 1
  -- trailing labels without an end time fall back to their model durations: max(1, round(mean)) per state
  for k in [groupStart * nstate : n * nstate] do
    let want := max 1 (ps.getD k ⟨0.0, 0.0⟩).mean.round.toUSize.toNat
    if d.getD k 0 != want then
      return some s!"trailing label {k / (max nstate 1)} has no end time: state {k} must fall back to its model duration {want}, got {d.getD k 0}"
  return none

def runAlign : P Verdict := do
  let n ← nat; let nstate ← nat
  let ps ← many (n * nstate) parseMV
  let sr ← nat; let fp ← nat
  let unit ← next
  let raw ← many n parseTime
  let ift ← many n parseTime
  let iout ← parseOut
  let rate : Float := timeRate sr fp
  let conv (x : Float) : Float := if unit == "frames" || x < 0.0 then x else x * rate
  -- model of `load_from_strings` for lines with/without the two time fields, then `Labels::new`
  let mt : List (Float × Float) := fillTimes (raw.map fun (a, b) => (conv a, conv b))
  -- the harness sends -1 for "no time field"; a given time is ≥ 0 (the property's quantifier)
  let fixedExtend := true
  let mout := ofModel (createWithAlignment fixedExtend ps nstate mt)
  -- the statement's conversion: a time stamp in 100 ns units is `t × sampling_rate / (frame_period × 10^7)` frames
  let unitOracle : Option String :=
    if unit == "frames" then none else
      firstSome ((raw.zip ift).map fun ((rs, re), (is, ie)) =>
        let ws := rs * sr.toFloat / (fp.toFloat * 1e7)
        let we := re * sr.toFloat / (fp.toFloat * 1e7)
        -- a given stamp must come out converted (gap filling only touches missing ones)
        firstSome [check (rs < 0.0 || closeF 1e-12 1e-12 is ws) s!"start {rs} (100 ns) became {is} frames, expected {ws} at {sr} Hz / frame period {fp}",
                   check (re < 0.0 || closeF 1e-12 1e-12 ie we) s!"end {re} (100 ns) became {ie} frames, expected {we} at {sr} Hz / frame period {fp}"])
  let corr := firstSome [
    check (sameTimes mt ift) s!"Labels::times model={mt} impl={ift}",
    check (sameOut mout iout) s!"create_with_alignment model={showOut mout} impl={showOut iout}" ]
  let orc := match iout with
    -- known / unknown ends as the annotation defines them (given directly or inherited from the next start):
    -- the gap-filled times of the model, not the times the library reports
    | .ok d => unitOracle <|> alignOracle nstate ps mt d
    | .panic s => some s!"panicked at {s}"
  let known := ift.filter (fun t => t.2 ≥ 0.0) |>.length
  let unknown := n - known
  let lastUnknown := match ift.getLast? with | some t => decide (t.2 < 0.0) | none => false
  pure { corr, oracle := orc, nontriv := known ≥ 1 && unknown ≥ 1,
         cls := s!"k{min known 4}:u{min unknown 4}:{if lastUnknown then "tail-unknown" else "tail-known"}" }

end Drv.Dur
