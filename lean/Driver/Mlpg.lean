/-
  `mlpg` op (C05; stage-level parts of C11/C12/C15):
  mlpg veclen nwin (len coef…)×nwin nstates (np (mean vari)×np msd)×nstates ndur durs thr gvw gvflag [ngv (mean vari)… nsw sw…]
       ok T L values… | panic site
-/
import Driver.Util
import Jb.Model.Mlpg

namespace Drv.Mlpg
open Drv Jb

def parseMV : P (MeanVari Float) := do
  let m ← flt; let v ← flt; pure ⟨m, v⟩

def parseStream : P (StreamIn Float × List Nat × Float × Float) := do
  let veclen ← nat
  let nwin ← nat
  let windows ← many nwin (listOf flt)
  let ns ← nat
  let stream ← many ns (do
    let np ← nat
    let ps ← many np parseMV
    let msd ← flt
    pure ({ params := ps, msd } : StateParam Float))
  let durs ← listOf nat
  let thr ← flt; let gvw ← flt
  let gf ← boolTok
  let gv ← if gf then do
      let p ← listOf parseMV
      let sw ← listOf boolTok
      pure (some (p, sw))
    else pure none
  pure ({ vectorLength := veclen, stream, gv, windows }, durs, thr, gvw)

inductive Traj where
  | ok (rows : List (List Float))
  | panic (site : String)

def parseTraj : P Traj := do
  let t ← next
  if t == "ok" then
    let n ← nat; let l ← nat
    let rows ← many n (many l flt)
    pure (.ok rows)
  else
    pure (.panic (← next))

def nodata : Float := -1e10

instance : Inhabited (StateParam Float) := ⟨{ params := [], msd := 0.0 }⟩

/-- model vs implementation on a trajectory -/
def diffTraj (rtol : Float) (m : Outcome Unit (List (List Float))) (i : Traj) : Option String × Nat × Nat :=
  match m, i with
  | .ok a, .ok b =>
    let fa := a.flatten; let fb := b.flatten
    let scale := maxAbs (fb.filter fun x => x != nodata)
    (firstSome [
      check (a.length == b.length) s!"frames: model {a.length} impl {b.length}",
      check (fa.length == fb.length) s!"values: model {fa.length} impl {fb.length}",
      check (((fa.zip fb).all fun (x, y) => (x == nodata) == (y == nodata))) "NODATA pattern differs",
      check (closeList rtol scale fa fb) s!"trajectory differs beyond rtol={rtol} (scale {scale})" ],
     countBits fa fb, fa.length)
  | .panic _, .panic _ => (none, 0, 0)
  | .panic s, .ok _ => (some s!"model panics at {s}, implementation returns", 0, 0)
  | .ok _, .panic s => (some s!"implementation panics at {s}, model returns", 0, 0)
  | .err _, _ => (some "model err", 0, 0)

/-- The C05 oracle: the implementation's trajectory must satisfy the normal equations
    `Σ_o p_o W_o (W_o·c − μ_o) = 0` built **from the definition** over absolute frames, where an observation
    `o = (window i, frame t)` counts iff `t` is voiced and (i = 0 or its whole span lies inside the
    utterance on voiced frames); unvoiced frames must carry NODATA. -/
def mlOracle (s : StreamIn Float) (durs : List Nat) (thr : Float) (rows : List (List Float)) : Option String := Id.run do
  let stateOf : List Nat := expand (List.range s.stream.length) durs
  let T := stateOf.length
  if rows.length != T then return some s!"{rows.length} frames for durations summing to {T}"
  let states := s.stream.toArray
  let voiced : Array Bool := (stateOf.map fun k => decide ((states[k]!).msd > thr)).toArray
  let nwin := s.windows.length
  for m in [0:s.vectorLength] do
    let c : Array Float := (rows.map fun r => r.getD m 0).toArray
    -- NODATA exactly on unvoiced frames
    for t in [0:T] do
      if voiced[t]! && c[t]! == nodata then return some s!"voiced frame {t} carries NODATA (dim {m})"
      if !voiced[t]! && c[t]! != nodata then return some s!"unvoiced frame {t} carries {c[t]!} instead of NODATA"
    let mut grad : Array Float := Array.replicate T 0.0
    let mut scale : Array Float := Array.replicate T 1e-300
    for wi in [0:nwin] do
      let win := (s.windows.getD wi []).toArray
      let w := win.size
      let lw := w / 2
      let rw := w - lw - 1
      for t in [0:T] do
        if voiced[t]! then
          -- span [t-lw, t+rw] inside the utterance and voiced?
          let inside := t ≥ lw && t + rw < T
          let allVoiced := inside && (List.range w).all fun k => voiced[t + k - lw]!
          if wi == 0 || allVoiced then
            let g := (states[stateOf.getD t 0]!).params.getD (s.vectorLength * wi + m) ⟨0, 1⟩
            let p := 1.0 / g.vari
            let mut dot := 0.0
            for k in [0:w] do
              if inside || (t + k ≥ lw && t + k - lw < T) then
                dot := dot + win[k]! * c[t + k - lw]!
            let r := dot - g.mean
            for k in [0:w] do
              if t + k ≥ lw && t + k - lw < T then
                let j := t + k - lw
                grad := grad.set! j (grad[j]! + p * win[k]! * r)
                scale := scale.set! j (scale[j]! + fabs (p * win[k]! * g.mean) + fabs (p * win[k]! * dot))
    -- a frame whose own terms all vanish (exactly-zero means) still carries the rounding error of its neighbours:
    -- the tolerance has a floor relative to the largest term of the column
    let top := scale.foldl (fun a x => if x > a then x else a) 0.0
    for t in [0:T] do
      if voiced[t]! && fabs grad[t]! > 1e-8 * scale[t]! + 1e-12 * top then
        return some s!"normal equations not satisfied at frame {t} dim {m}: residual {grad[t]!} (scale {scale[t]!})"
  return none

def run : P Verdict := do
  let (s, durs, thr, gvw) ← parseStream
  let impl ← parseTraj
  let m := mlpgCreate gvw thr s durs
  let (corr, bo, ba) := diffTraj (if s.gv.isSome then 1e-6 else 1e-9) m impl
  let orc := match impl with
    | .ok rows => if s.gv.isNone then mlOracle s durs thr rows else none
    | .panic site => some s!"MlpgAdjust::create panicked at {site}"
  -- classes
  let mask := maskCreate s.stream thr durs
  let nv := (mask.filter id).length
  let runs : List Nat := (mask.foldl (fun (acc : List Nat × Nat) b =>
      if b then (acc.1, acc.2 + 1) else (if acc.2 > 0 then acc.2 :: acc.1 else acc.1, 0)) ([], 0)) |> fun (l, c) => if c > 0 then c :: l else l
  let hasIsland2 := runs.any (· ≥ 2)
  let shortIsland := runs.any (· ≤ 2)
  let wmax := s.windows.foldl (fun a w => max a w.length) 0
  let vcls := if nv == 0 then "unvoiced" else if nv == mask.length then "allvoiced" else if shortIsland then "islands-short" else "islands"
  pure { corr, oracle := orc, nontriv := hasIsland2 && s.windows.length ≥ 2,
         cls := s!"nwin{s.windows.length}:w{wmax}:{vcls}:L{s.vectorLength}", bitsOk := bo, bitsAll := ba }

end Drv.Mlpg
