/-
  jbdrv — line-protocol driver. Reads one case per line on stdin (written by the Rust harness, which
  ran the real implementation), runs the Lean model's own definitions on the same inputs with
  `α := Float`, evaluates the property oracle on the implementation's outputs, prints one verdict line
  per case.
-/
import Driver.Util
import Driver.C20
import Driver.Dur
import Driver.Gen
import Driver.Wts
import Driver.Mlpg
import Driver.Voc
import Driver.Pipe
import Driver.Eng
import Driver.Lab
import Driver.Hts

open Drv

def dispatch (op : String) : Option (P Verdict) :=
  match op with
  | "cond" => some Drv.C20.run
  | "vset" => some Drv.Wts.runVset
  | "wset" => some Drv.Wts.runWset
  | "wavg" => some Drv.Wts.runWavg
  | "lines" => some Drv.Lab.runLines
  | "forms" => some Drv.Lab.runForms
  | "units" => some Drv.Lab.runUnits
  | "det" => some Drv.Det.runDet
  | "clones" => some Drv.Det.runClones
  | "hist" => some Drv.Det.runHist
  | "shist" => some Drv.Det.runSetterHist
  | "shistok" => some Drv.Det.runSetterHistOk
  | "thr" => some Drv.Eng.runThr
  | "ht" => some Drv.Eng.runHt
  | "vol" => some Drv.Eng.runVol
  | "gvv" => some Drv.Eng.runGvv
  | "pipe" => some Drv.Pipe.run
  | "voc" => some Drv.Voc.run
  | "mlpg" => some Drv.Mlpg.run
  | "gen" => some Drv.Gen.run
  | "dur" => some Drv.Dur.runDur
  | "durE" => some Drv.Dur.runDurE
  | "align" => some Drv.Dur.runAlign
  | _ => none

def runLine (idx : Nat) (line : String) : String :=
  let toks := (line.splitOn " ").filter (· ≠ "") |>.toArray
  if h : 0 < toks.size then
    let op := toks[0]
    if op.startsWith "#" then "" else
    match dispatch op with
    | none => s!"case {idx} op={op} error=unknown-op"
    | some p =>
      match (p.run (toks, 1)) with
      | .ok (v, _) => v.render idx op
      | .error e => s!"case {idx} op={op} error={sanitize e}"
  else ""

def readVoice (path : String) : IO (Jb.Hts.Res Jb.Hts.ParsedVoice) := do
  let bytes ← IO.FS.readBinFile path
  pure (Jb.Hts.parseVoice true (bytes.toList.map (·.toNat)))

abbrev VoiceCache := IO.Ref (List (String × Jb.Hts.Res Jb.Hts.ParsedVoice))

def getVoice (cache : VoiceCache) (path : String) : IO (Jb.Hts.Res Jb.Hts.ParsedVoice) := do
  let cur ← cache.get
  match cur.find? (·.1 == path) with
  | some (_, v) => pure v
  | none =>
    let v ← readVoice path
    cache.set ((path, v) :: cur.take 6)
    pure v

/-- ops that need voice files: the driver reads and parses them itself (cached per path) -/
def runHtsLine (cache : VoiceCache) (idx : Nat) (toks : Array String) : IO String := do
  let op := toks[0]!
  let path := toks.getD 1 ""
  if op == "htsf" then
    let pv ← if path == "-" then pure none else (do
      let ok ← System.FilePath.pathExists path
      if ok then some <$> readVoice path else pure none)
    match (Drv.HtsOp.runFault pv).run (toks, 2) with
    | .ok (v, _) => return v.render idx op
    | .error e => return s!"case {idx} op={op} error={sanitize e}"
  if op == "e2e" then
    let n := (toks.getD 1 "0").toNat?.getD 0
    let mut voices : List Jb.Hts.ParsedVoice := []
    for i in [0:n] do
      match ← getVoice cache (toks.getD (2 + i) "") with
      | .ok v => voices := voices ++ [v]
      | _ => return (({ corr := some "the Lean reader rejects a voice file of an e2e case", oracle := none } : Verdict).render idx op)
    match (Drv.HtsOp.runE2e voices).run (toks, 2 + n) with
    | .ok (v, _) => return v.render idx op
    | .error e => return s!"case {idx} op={op} error={sanitize e}"
  let pv ← getVoice cache path
  match pv with
  | .ok voice =>
    if op == "htsmeta" && toks.getD 2 "" == "loaderr" then
      -- a file the reader accepts as well-formed, which the implementation refused to load
      return (({ corr := some "implementation rejects a file the Lean reader accepts",
                 oracle := some s!"a well-formed voice file failed to load: {toks.getD 3 "?"}", nontriv := true,
                 cls := "load-error" } : Verdict).render idx op)
    let p : P Verdict := if op == "hts" then Drv.HtsOp.runHts voice else Drv.HtsOp.runMeta voice
    match p.run (toks, 2) with
    | .ok (v, _) => pure (v.render idx op)
    | .error e => pure s!"case {idx} op={op} error={sanitize e}"
  | .err e => pure (({ corr := some s!"the Lean reader rejects the file: {e}", oracle := none } : Verdict).render idx op)
  | .panic s => pure (({ corr := some s!"the Lean reader reports a panic site: {s}", oracle := none } : Verdict).render idx op)

partial def loop (cache : VoiceCache) (h : IO.FS.Stream) (idx : Nat) : IO Unit := do
  let line ← h.getLine
  if line.isEmpty then return ()
  let l := line.trimAscii.toString
  let toks := (l.splitOn " ").filter (· ≠ "") |>.toArray
  let out ← if toks.size > 0 && (toks[0]! == "hts" || toks[0]! == "htsmeta" || toks[0]! == "htsf" || toks[0]! == "e2e") then runHtsLine cache idx toks
            else pure (runLine idx l)
  if !out.isEmpty then IO.println out
  loop cache h (if out.isEmpty then idx else idx + 1)

def main : IO Unit := do
  let cache ← IO.mkRef []
  loop cache (← IO.getStdin) 0
