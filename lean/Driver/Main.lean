/-
  jbdrv — line-protocol driver. Reads one case per line on stdin (written by the Rust harness, which
  ran the real implementation), runs the Lean model's own definitions on the same inputs with
  `α := Float`, evaluates the property oracle on the implementation's outputs, prints one verdict line
  per case.
-/
import Driver.Util
import Driver.C20
import Driver.Dur
import Driver.Gen
import Driver.Wts
import Driver.Mlpg
import Driver.Voc
import Driver.Pipe
import Driver.Eng
import Driver.Lab

open Drv

def dispatch (op : String) : Option (P Verdict) :=
  match op with
  | "cond" => some Drv.C20.run
  | "vset" => some Drv.Wts.runVset
  | "wset" => some Drv.Wts.runWset
  | "wavg" => some Drv.Wts.runWavg
  | "lines" => some Drv.Lab.runLines
  | "forms" => some Drv.Lab.runForms
  | "det" => some Drv.Det.runDet
  | "hist" => some Drv.Det.runHist
  | "thr" => some Drv.Eng.runThr
  | "ht" => some Drv.Eng.runHt
  | "vol" => some Drv.Eng.runVol
  | "gvv" => some Drv.Eng.runGvv
  | "pipe" => some Drv.Pipe.run
  | "voc" => some Drv.Voc.run
  | "mlpg" => some Drv.Mlpg.run
  | "gen" => some Drv.Gen.run
  | "dur" => some Drv.Dur.runDur
  | "align" => some Drv.Dur.runAlign
  | _ => none

def runLine (idx : Nat) (line : String) : String :=
  let toks := (line.splitOn " ").filter (· ≠ "") |>.toArray
  if h : 0 < toks.size then
    let op := toks[0]
    if op.startsWith "#" then "" else
    match dispatch op with
    | none => s!"case {idx} op={op} error=unknown-op"
    | some p =>
      match (p.run (toks, 1)) with
      | .ok (v, _) => v.render idx op
      | .error e => s!"case {idx} op={op} error={sanitize e}"
  else ""

partial def loop (h : IO.FS.Stream) (idx : Nat) : IO Unit := do
  let line ← h.getLine
  if line.isEmpty then return ()
  let l := line.trimAscii.toString
  let out := runLine idx l
  if !out.isEmpty then IO.println out
  loop h (if out.isEmpty then idx else idx + 1)

def main : IO Unit := do
  loop (← IO.getStdin) 0
