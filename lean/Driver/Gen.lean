/-
  `gen` op (C02): a caller history on a real generator, with the implementation's one-shot waveform.
  gen fp n W nops  (step b ret buf… | steppanic b site | frames ret | finish ok W' | finish panic site)* end
  The model is the `Gen` state machine over the cursor vocoder: state = frames consumed,
  synth k _ = (k+1, W[k·fp .. (k+1)·fp]).
-/
import Driver.Util
import Jb.Model.Speech

namespace Drv.Gen
open Drv Jb

def sentinel (i : Nat) : Float := -7777.0 - i.toFloat

inductive ImplObs where
  | stepped (b ret : Nat) (buf : List Float)
  | stepPanic (b : Nat) (site : String)
  | count (n : Nat)
  | finished (w : List Float)
  | finishPanic (site : String)

partial def parseObs (acc : Array ImplObs) : P (Array ImplObs) := do
  let t ← next
  match t with
  | "end" => pure acc
  | "step" => do
    let b ← nat; let r ← nat; let buf ← many b flt
    parseObs (acc.push (.stepped b r buf))
  | "steppanic" => do
    let b ← nat; let s ← next
    parseObs (acc.push (.stepPanic b s))
  | "frames" => do
    let r ← nat
    parseObs (acc.push (.count r))
  | "finish" => do
    let k ← next
    if k == "ok" then
      let w ← listOf flt
      parseObs (acc.push (.finished w))
    else
      let s ← next
      parseObs (acc.push (.finishPanic s))
  | _ => throw s!"bad gen obs {t}"

def bitsList (a b : List Float) : Bool :=
  a.length == b.length && (a.zip b).all fun (x, y) => bitsEq x y

def sameObs (m : GenObs Float) (i : ImplObs) : Option String :=
  match m, i with
  | .stepped r buf, .stepped _ r' buf' =>
    firstSome [check (r == r') s!"generate_step returned {r'} (model {r})",
               check (bitsList buf buf') "buffer after generate_step differs from the model"]
  | .count n, .count n' => check (n == n') s!"synthesized_frames {n'} (model {n})"
  | .finished w, .finished w' => check (bitsList w w') s!"generate_all returned {w'.length} samples (model {w.length}) or different samples"
  | .panicked _, .stepPanic _ _ => none
  | .panicked s, .finishPanic s' => some s!"generate_all panicked at {s'} (model panic {s})"
  | .finished _, .finishPanic s => some s!"generate_all panicked at {s}; model returns the remaining suffix"
  | .stepped _ _, .stepPanic _ s => some s!"generate_step panicked at {s}"
  | _, _ => some "observation kinds differ"

def run : P Verdict := do
  let fp ← nat; let n ← nat
  let w ← listOf flt
  let _nops ← nat
  let obs ← parseObs #[]
  let obs := obs.toList
  -- the history, reconstructed from what the caller did
  let ops : List (GenOp × List Float) := obs.map fun o => match o with
    | .stepped b _ _ => (GenOp.step b, (List.range b).map sentinel)
    | .stepPanic b _ => (GenOp.step b, (List.range b).map sentinel)
    | .count _ => (GenOp.query, [])
    | .finished _ => (GenOp.finish, [])
    | .finishPanic _ => (GenOp.finish, [])
  let synth : Nat → Unit → Nat × List Float := fun k _ => (k + 1, (w.drop (k * fp)).take fp)
  let g0 : Gen Nat Unit := { fperiod := fp, frames := List.replicate n (), next := 0, voc := 0 }
  let mobs := runOps synth true g0 ops
  let corr := firstSome [
    check (w.length == n * fp) s!"one-shot waveform has {w.length} samples, not {n}·{fp}",
    check (mobs.length == obs.length) s!"model produced {mobs.length} observations, implementation {obs.length}",
    firstSome ((mobs.zip obs).map fun (m, i) => sameObs m i) ]
  -- the statement itself, on the implementation's observations: cursor semantics over the one-shot waveform
  let sobs := specOps w fp n 0 ops
  let orc := firstSome [
    check (sobs.length == obs.length) "history ended early (panic)",
    firstSome ((sobs.zip obs).map fun (m, i) => sameObs m i) ]
  let accepted := (obs.filter fun o => match o with | .stepped _ r _ => r > 0 | _ => false).length
  let exhausted := (obs.filter fun o => match o with | .stepped _ r _ => r == 0 | _ => false).length
  let fin := match obs.getLast? with
    | some (.finished _) | some (.finishPanic _) =>
      if accepted == 0 then "finish-fresh" else if accepted ≥ n then "finish-exhausted" else "finish-mid"
    | _ => "no-finish"
  let nb := if n == 0 then "n0" else if n ≤ 3 then s!"n{n}" else "n>3"
  let opsAfter := match obs with
    | [] => false
    | _ => accepted ≥ 1 && obs.length ≥ 2
  pure { corr, oracle := orc, nontriv := opsAfter,
         cls := s!"{nb}:{fin}:acc{min accepted 4}:exh{min exhausted 2}",
         bitsOk := 0, bitsAll := 0 }

end Drv.Gen
