/-
  `voc` op: stage-level vocoder runs (C06 C07 C13 C14 C16).
  voc <MODE> fx a b nmcp nlpf stage lg rate alpha beta volume fperiod nframes (lf0 spec[nmcp] lpf[nlpf])×nframes  ok n samples… | panic site
  followed by mode-specific auxiliary implementation outputs.
-/
import Driver.Util
import Jb.Model.Vocoder

namespace Drv.Voc
open Drv Jb

structure Case where
  fx : Fix
  nmcp : Nat
  nlpf : Nat
  stage : Nat
  lg : Bool
  rate : Nat
  alpha : Float
  beta : Float
  volume : Float
  fperiod : Nat
  frames : List (Float × List Float × List Float)

def parseCase : P Case := do
  expect "fx"
  let a ← boolTok; let b ← boolTok
  let nmcp ← nat; let nlpf ← nat; let stage ← nat; let lg ← boolTok; let rate ← nat
  let alpha ← flt; let beta ← flt; let volume ← flt; let fperiod ← nat
  let nf ← nat
  let frames ← many nf (do
    let lf0 ← flt
    let sp ← many nmcp flt
    let lpf ← many nlpf flt
    pure (lf0, sp, lpf))
  pure { fx := ⟨a, b⟩, nmcp, nlpf, stage, lg, rate, alpha, beta, volume, fperiod, frames }

inductive Wave where
  | ok (w : List Float)
  | panic (site : String)

def parseWave : P Wave := do
  let t ← next
  if t == "ok" then pure (.ok (← listOf flt)) else pure (.panic (← next))

def runModel (c : Case) : List Float :=
  let v0 : VocoderSt Float := VocoderSt.new c.nmcp c.nlpf c.stage c.lg c.rate c.alpha c.beta c.volume c.fperiod
  let (outRev, _) := c.frames.foldl (fun (acc : List (List Float) × VocoderSt Float) (f : Float × List Float × List Float) =>
      let (w, v) := vocoderSynth c.fx acc.2 f.1 f.2.1 f.2.2
      (w :: acc.1, v)) ([], v0)
  outRev.reverse.flatten

def diffWave (rtol : Float) (m : List Float) (i : Wave) : Option String × Nat × Nat :=
  match i with
  | .ok w =>
    let scale := maxAbs w
    (firstSome [check (m.length == w.length) s!"samples: model {m.length} impl {w.length}",
                check (closeList rtol scale m w) s!"waveform differs beyond rtol={rtol}·peak (peak {scale})"],
     countBits m w, w.length)
  | .panic s => (some s!"implementation panicked at {s}", 0, 0)

def runRaw : P Verdict := do
  let c ← parseCase
  let w ← parseWave
  let m := runModel c
  let (corr, bo, ba) := diffWave 1e-6 m w
  let orc := match w with
    | .ok ws => check (ws.length == c.fperiod * c.frames.length) "synthesize did not write fperiod samples per frame"
    | .panic s => some s!"panicked at {s}"
  pure { corr, oracle := orc, nontriv := true,
         cls := s!"stage{c.stage}:lpf{c.nlpf}:a{if c.alpha == 0.0 then "0" else "x"}:b{if c.beta == 0.0 then "0" else "x"}",
         bitsOk := bo, bitsAll := ba }

/-! ### shared numerics for the oracles (Float only) -/

def warp (w alpha : Float) : Float := w + 2.0 * Float.atan2 (alpha * Float.sin w) (1.0 - alpha * Float.cos w)

/-- `ln |Σ_n h[n] e^{-jωn}|` by the rotation recurrence -/
def logMagAt (h : Array Float) (w : Float) : Float := Id.run do
  let cw := Float.cos w; let sw := Float.sin w
  let mut c := 1.0; let mut s := 0.0
  let mut re := 0.0; let mut im := 0.0
  for x in h do
    re := re + x * c
    im := im - x * s
    let c' := c * cw - s * sw
    s := s * cw + c * sw
    c := c'
  return 0.5 * Float.log (re * re + im * im)

def pi : Float := 3.141592653589793

def periodOf (rate : Nat) (lf0 : Float) : Float :=
  if lf0 == -1e10 then 0.0 else
    let l := if lf0 < 2.995732273553991 then 2.995732273553991 else if lf0 > 9.903487552536127 then 9.903487552536127 else lf0
    rate.toFloat / Float.exp l

def energy (a : Array Float) (lo hi : Nat) : Float := Id.run do
  let mut e := 0.0
  for i in [lo:hi] do
    e := e + a[i]! * a[i]!
  return e

/-! ### C06 -/
def runC06 : P Verdict := do
  let c ← parseCase
  let w ← parseWave
  let k ← nat
  let m := runModel c
  let (corr, bo, ba) := diffWave 1e-6 m w
  let (lf0, cep, _) := c.frames.headD (0.0, [], [])
  let p := periodOf c.rate lf0
  let orc := match w with
    | .panic s => some s!"panicked at {s}"
    | .ok ws => Id.run do
      let h : Array Float := (ws.map fun x => x / Float.sqrt p).toArray
      if h.size != c.fperiod then return some "wrong number of samples"
      let tail := energy h (h.size * 7 / 8) h.size
      let tot := energy h 0 h.size
      if !(tail ≤ 1e-10 * tot) then return some s!"pulse response has not decayed inside the frame (tail/total = {tail / tot})"
      let mut worst := 0.0
      let mut worstAt := 0
      for i in [0:k] do
        let om := pi * i.toFloat / (k - 1).toFloat
        let wt := warp om c.alpha
        let want := ((List.range cep.length).zip cep).foldl (fun acc (mi, cm) => acc + cm * Float.cos (mi.toFloat * wt)) 0.0
        let got := logMagAt h om
        let d := fabs (got - want)
        if d > worst || d.isNaN then
          worst := if d.isNaN then 1e9 else d
          worstAt := i
      if worst > 0.01 then return some s!"log-magnitude deviates {worst} neper from Σ c_m cos(m ω~) at bin {worstAt}/{k} (order {cep.length - 1}, alpha {c.alpha})"
      return none
  pure { corr, oracle := orc, nontriv := (cep.drop 1).any (· != 0.0),
         cls := s!"ord{if cep.length ≤ 8 then "<=7" else if cep.length ≤ 25 then "<=24" else ">24"}:a{if c.alpha == 0.0 then "0" else if c.alpha < 0.3 then "lo" else "hi"}:r{c.rate}",
         bitsOk := bo, bitsAll := ba }

/-- `C06h`: lead-in frame with another cepstrum, then the cepstrum under test twice; the response to the pulse on the
    first sample of frame 2 (coefficients standing still) must have the spectrum of frame 2's cepstrum. -/
def runC06h : P Verdict := do
  let c ← parseCase
  let w ← parseWave
  let k ← nat
  let m := runModel c
  let (corr, bo, ba) := diffWave 1e-6 m w
  let (lf0, cep, _) := c.frames.getD 2 (0.0, [], [])
  let p := periodOf c.rate lf0
  let fp := c.fperiod
  let orc := match w with
    | .panic s => some s!"panicked at {s}"
    | .ok ws => Id.run do
      if ws.length != 3 * fp then return some "wrong number of samples"
      let h : Array Float := (((ws.drop (2 * fp)).take fp).map fun x => x / Float.sqrt p).toArray
      let tot := energy h 0 h.size
      let tail := energy h (h.size * 7 / 8) h.size
      let prev : Array Float := ((ws.drop fp).take fp).toArray
      let ptail := energy prev (prev.size * 7 / 8) prev.size
      -- the comparison needs the response of frame 2 alone: skip the case when either response has not died out
      if !(tail ≤ 1e-10 * tot) || !(ptail ≤ 1e-10 * energy prev 0 prev.size) then return none
      let mut worst := 0.0
      let mut worstAt := 0
      for i in [0:k] do
        let om := pi * i.toFloat / (k - 1).toFloat
        let wt := warp om c.alpha
        let want := ((List.range cep.length).zip cep).foldl (fun acc (mi, cm) => acc + cm * Float.cos (mi.toFloat * wt)) 0.0
        let got := logMagAt h om
        let d := fabs (got - want)
        if d > worst || d.isNaN then
          worst := if d.isNaN then 1e9 else d
          worstAt := i
      if worst > 0.01 then return some s!"after a lead-in frame with another cepstrum, the response in the stationary frame deviates {worst} neper from Σ c_m cos(m ω~) at bin {worstAt}/{k} (order {cep.length - 1}, alpha {c.alpha})"
      return none
  pure { corr, oracle := orc, nontriv := (cep.drop 1).any (· != 0.0),
         cls := s!"history:ord{if cep.length ≤ 8 then "<=7" else if cep.length ≤ 25 then "<=24" else ">24"}:a{if c.alpha == 0.0 then "0" else "x"}",
         bitsOk := bo, bitsAll := ba }

/-! ### C07 -/
structure Pulse where
  pos : Nat
  height : Float

def runC07 : P Verdict := do
  let c ← parseCase
  let w ← parseWave
  let aux ← (do
    let t ← peek?
    if t == some "aux" then
      let _ ← next
      let d ← parseWave; let z ← parseWave
      pure (some (d, z))
    else pure none)
  let m := runModel c
  let (corr, bo, ba) := diffWave 1e-9 m w
  let fp := c.fperiod
  let periods : Array Float := (c.frames.map fun f => periodOf c.rate f.1).toArray
  let nf := periods.size
  let mut known : Option String := none
  let orc : Option String × Option String := match w with
    | .panic s => (some s!"panicked at {s}", none)
    | .ok ws => Id.run do
      let y := ws.toArray
      if y.size != fp * nf then return (some "wrong number of samples", none)
      if !(ws.all fun x => !x.isNaN && !x.isInf) then return (some "non-finite excitation", none)
      if c.nlpf == 0 then
        -- pulse train / noise, frame by frame
        let mut lastPulse : Option Nat := none     -- position of the previous pulse in the current constant-F0 voiced run
        let mut runStart := 0                       -- first sample of the current constant-F0 voiced run
        let mut runPulses := 0
        let mut firstGapOfRun := true
        let mut afterDownGlide := false
        let mut nsum := 0.0; let mut nsq := 0.0; let mut ncnt := 0
        let mut fail : Option String := none
        let mut kn : Option String := none
        for f in [0:nf] do
          let p := periods[f]!
          let prev := if f == 0 then 0.0 else periods[f-1]!
          if p == 0.0 then
            -- unvoiced: white noise
            for i in [0:fp] do
              let x := y[f*fp+i]!
              nsum := nsum + x; nsq := nsq + x * x; ncnt := ncnt + 1
            lastPulse := none
          else
            let glide := prev != 0.0 && prev != p
            let restart := prev == 0.0
            let prevGlide := f ≥ 2 && periods[f-2]! != 0.0 && prev != 0.0 && periods[f-2]! != prev
            if restart || glide || prevGlide then
              -- gaps are only constrained between pulses of one constant-period stretch
              lastPulse := none
            if restart || glide then afterDownGlide := false
            if restart then
              runStart := f*fp; runPulses := 0; firstGapOfRun := true
            if prevGlide && !glide then
              runStart := f*fp; runPulses := 0; firstGapOfRun := false
              -- after a downward glide the pulse counter may still exceed 1: gaps are unsettled until a regular one
              afterDownGlide := periods[f-2]! > prev
            for i in [0:fp] do
              let n := f*fp+i
              let x := y[n]!
              if x != 0.0 then
                -- a pulse: height sqrt(period at this sample)
                let cur := if glide then prev + i.toFloat * ((p - prev) / fp.toFloat) else p
                if fail.isNone && !(closeF 1e-9 1e-300 x (Float.sqrt cur)) then
                  fail := some s!"pulse at sample {n} has height {x}, expected sqrt({cur}) = {Float.sqrt cur}"
                if !glide then
                  match lastPulse with
                  | some q =>
                    let gap := n - q
                    let lo := p.floor.toUSize.toNat; let hi := p.ceil.toUSize.toNat
                    if gap == lo || gap == hi then afterDownGlide := false
                    if gap != lo && gap != hi then
                      if afterDownGlide && gap < lo then
                        -- known finding: the counter carried over from a steep downward glide shortens the first gap(s)
                        kn := some "C07:short-gap-after-downward-glide"
                        if fail.isNone then fail := some s!"pulse gap {gap} at sample {n} in a constant-F0 frame right after a downward glide, period {p} (floor {lo}, ceil {hi})"
                      -- F7: exactly integer period, first gap after a (re)start is T0-1
                      else if firstGapOfRun && p == p.floor && gap + 1 == lo then
                        kn := some "C07:first-gap-integer-period"
                        if fail.isNone then fail := some s!"first gap after a start is {gap} = T0-1 for the exactly integer period T0 = {p}"
                      else if fail.isNone then
                        fail := some s!"pulse gap {gap} at sample {n}, period {p} (floor {lo}, ceil {hi})"
                    firstGapOfRun := false
                  | none => pure ()
                  runPulses := runPulses + 1
                lastPulse := some n
            -- mean power over the constant run so far: |#pulses·T0 − N| ≤ 2·T0
            if !glide then
              let nsamp := (f+1)*fp - runStart
              if fail.isNone && prev == p && fabs (runPulses.toFloat * p - nsamp.toFloat) > 2.0 * p + 2.0 then
                fail := some s!"pulse count {runPulses} over {nsamp} samples inconsistent with period {p} (mean power not 1)"
            else
              runStart := (f+1)*fp; runPulses := 0; firstGapOfRun := false
        if ncnt ≥ 5000 then
          let mean := nsum / ncnt.toFloat
          let var := nsq / ncnt.toFloat - mean * mean
          if fail.isNone && (fabs mean > 0.06 || fabs (var - 1.0) > 0.1) then
            fail := some s!"unvoiced excitation: mean {mean}, variance {var} over {ncnt} samples"
        return (fail, kn)
      else
        -- mixed excitation: y_h = h*pulses + (δ−h)*noise, from the δ and 0 low-pass runs of the implementation
        match aux with
        | some (.ok yd, .ok yz) =>
          let yd := yd.toArray; let yz := yz.toArray
          let L := c.nlpf; let ctr := (L - 1) / 2
          let total := fp * nf
          let mut pred : Array Float := Array.replicate (total + L) 0.0
          for n in [0:total] do
            if n + ctr < total then
              let f := n / fp
              let noise := yz[n + ctr]!
              let h := ((c.frames.getD f (0.0, [], [])).2.2).toArray
              if periods[f]! == 0.0 then
                pred := pred.set! (n + ctr) (pred[n + ctr]! + noise)
              else
                let pulse := yd[n + ctr]!
                for i in [0:L] do
                  let d := if i == ctr then 1.0 else 0.0
                  pred := pred.set! (n + i) (pred[n + i]! + pulse * h[i]! + noise * (d - h[i]!))
          let scale := maxAbs ws
          -- samples whose sources all lie inside the observed window
          let mut fail : Option String := none
          -- the two auxiliary runs must themselves be what the law says: low-pass δ passes the pulses only
          -- (zeros and sqrt(T0) impulses, delayed by the centre), low-pass 0 passes the noise only
          let mut zerosInNoise := 0; let mut voicedSamples := 0
          for n in [0:total] do
            if n + ctr < total && periods[n / fp]! != 0.0 then
              voicedSamples := voicedSamples + 1
              if yz[n + ctr]! == 0.0 then zerosInNoise := zerosInNoise + 1
              let pv := yd[n + ctr]!
              let prev := if n / fp == 0 then 0.0 else periods[n / fp - 1]!
              let steady := prev == periods[n / fp]!
              if fail.isNone && steady && pv != 0.0 && !(closeF 1e-9 1e-300 pv (Float.sqrt periods[n / fp]!)) then
                fail := some s!"low-pass δ: sample {n + ctr} is {pv}, neither 0 nor sqrt(T0) = {Float.sqrt periods[n / fp]!}"
          if fail.isNone && voicedSamples ≥ 100 && zerosInNoise * 2 > voicedSamples then
            fail := some s!"low-pass 0 in voiced frames must leave the noise: {zerosInNoise} of {voicedSamples} samples are exactly zero"
          for mIdx in [0:total - L] do
            if fail.isNone && !(closeF 1e-9 scale pred[mIdx]! y[mIdx]!) then
              fail := some s!"sample {mIdx}: {y[mIdx]!} but h*pulses + (δ-h)*noise gives {pred[mIdx]!}"
          return (fail, none)
        | _ => return (some "auxiliary runs failed", none)
  let voicedFrames := (periods.toList.filter (· != 0.0)).length
  let switches := ((periods.toList.zip (periods.toList.drop 1)).filter fun (a, b) => (a == 0.0) != (b == 0.0)).length
  let steps := ((periods.toList.zip (periods.toList.drop 1)).filter fun (a, b) => a != 0.0 && b != 0.0 && a != b).length
  let intP := periods.toList.any fun p => p != 0.0 && p == p.floor
  pure { corr, oracle := orc.1, known := orc.2, nontriv := voicedFrames ≥ 1,
         cls := s!"lpf{if c.nlpf == 0 then "0" else if c.nlpf ≤ 9 then "<=9" else ">9"}:{if voicedFrames == 0 then "unvoiced" else if switches > 0 then "switch" else "voiced"}:{if steps > 0 then "steps" else "const"}:{if intP then "intT0" else "fracT0"}",
         bitsOk := bo, bitsAll := ba }

/-! ### C13 -/
def polyMul (a b : Array Float) : Array Float := Id.run do
  let mut r : Array Float := Array.replicate (a.size + b.size - 1) 0.0
  for i in [0:a.size] do
    for j in [0:b.size] do
      r := r.set! (i + j) (r[i + j]! + a[i]! * b[j]!)
  return r

/-- `A(z) = (P(z) + Q(z)) / 2` from the line spectral frequencies (reference construction) -/
def lspToA (lsp : List Float) : Array Float := Id.run do
  let m := lsp.length
  let mut pp : Array Float := #[1.0]
  let mut qq : Array Float := #[1.0]
  for i in [0:m] do
    let f : Array Float := #[1.0, -2.0 * Float.cos (lsp.getD i 0.0), 1.0]
    if i % 2 == 0 then pp := polyMul pp f else qq := polyMul qq f
  if m % 2 == 0 then
    pp := polyMul pp #[1.0, 1.0]
    qq := polyMul qq #[1.0, -1.0]
  else
    qq := polyMul qq #[1.0, 0.0, -1.0]
  let n := max pp.size qq.size
  let mut a : Array Float := Array.replicate n 0.0
  for i in [0:n] do
    a := a.set! i (0.5 * (pp.getD i 0.0 + qq.getD i 0.0))
  return a

/-- `hist = false`: one frame, one pulse. `hist = true` (`C13h`): a lead-in frame with the same frequencies and another gain,
    then the frame under test twice; the response is read from the third frame, where the coefficients stand still. -/
def runC13g (hist : Bool) : P Verdict := do
  let c ← parseCase
  let w ← parseWave
  let k ← nat
  let m := runModel c
  let (corr, bo, ba) := diffWave 1e-6 m w
  let (lf0, v, _) := if hist then c.frames.getD 2 (0.0, [], []) else c.frames.headD (0.0, [], [])
  let p := periodOf c.rate lf0
  let gain := if c.lg then Float.exp (v.headD 0.0) else v.headD 0.0
  let w : Wave := match w with
    | .ok ws => if hist then (if ws.length == 3 * c.fperiod then .ok ((ws.drop (2 * c.fperiod)).take c.fperiod) else .panic "wrong-number-of-samples") else .ok ws
    | x => x
  let orc := match w with
    | .panic s => some s!"panicked at {s}"
    | .ok ws => Id.run do
      if !(ws.all fun x => !x.isNaN && !x.isInf) then return some "non-finite pulse response for increasing, well-separated frequencies"
      let h : Array Float := (ws.map fun x => x / Float.sqrt p).toArray
      let tot := energy h 0 h.size
      let tail := energy h (h.size * 3 / 4) h.size
      let head := energy h 0 (h.size / 4)
      if !(tail < head) then return some s!"pulse response does not decay (first quarter energy {head}, last quarter {tail})"
      if c.beta != 0.0 then return none  -- the magnitude formula is stated for the unfiltered frequencies
      -- measurable only when the truncated tail is negligible
      if !(energy h (h.size * 7 / 8) h.size ≤ 1e-12 * tot) then return none
      let a := lspToA (v.drop 1)
      let mut lm : Array Float := #[]
      let mut want : Array Float := #[]
      for i in [0:k] do
        let om := pi * i.toFloat / (k - 1).toFloat
        lm := lm.push (logMagAt h om)
        want := want.push (Float.log gain - c.stage.toFloat * logMagAt a (warp om c.alpha))
      let peak := lm.foldl (fun mx x => if x > mx then x else mx) (-1e300)
      -- the response is observed truncated: bound the unseen remainder's contribution to any DFT bin by its
      -- L1 norm, extrapolated geometrically from the last two eighths; a bin is measurable to 1e-4 neper only
      -- if that bound is below 1e-4 of the bin's own magnitude
      let l1 (a b : Nat) : Float := Id.run do
        let mut t := 0.0
        for i in [a:b] do t := t + fabs h[i]!
        return t
      let e7 := l1 (h.size * 6 / 8) (h.size * 7 / 8)
      let e8 := l1 (h.size * 7 / 8) h.size
      let r := if e7 == 0.0 then 0.0 else e8 / e7
      let rem := if r < 1.0 then e8 * r / (1.0 - r) else 1e300
      let mut worst := 0.0; let mut atBin := 0
      for i in [0:k] do
        if lm[i]! > peak - 11.5 && rem ≤ 1e-4 * Float.exp lm[i]! then   -- within 100 dB of the spectral peak, measurable
          let d := fabs (lm[i]! - want[i]!)
          if d > worst || d.isNaN then
            worst := if d.isNaN then 1e9 else d
            atBin := i
      if worst > 0.001 then return some s!"|H| deviates {worst} neper from K/|A|^s at bin {atBin}/{k} (order {v.length - 1}, stage {c.stage}, alpha {c.alpha}, log_gain {c.lg})"
      return none
  -- a magnitude deviation is keyed by its input, so that known_findings.json can list one specific input
  let fingerprint := (v.foldl (· + ·) c.alpha).toBits.toNat
  let known := match orc with
    | some msg => if msg.startsWith "|H| deviates" then some s!"C13:f64-roundoff:{String.ofList (Nat.toDigits 16 fingerprint)}" else none
    | none => none
  pure { corr, oracle := orc, known, nontriv := true,
         cls := s!"{if hist then "history:" else ""}ord{if v.length ≤ 7 then "<=6" else "big"}:{if (v.length - 1) % 2 == 0 then "even" else "odd"}:s{c.stage}:a{if c.alpha == 0.0 then "0" else "x"}:{if c.lg then "log" else "lin"}:b{if c.beta == 0.0 then "0" else "x"}",
         bitsOk := bo, bitsAll := ba }

def runC13 : P Verdict := runC13g false
def runC13h : P Verdict := runC13g true

/-! ### C14 -/
def runC14 : P Verdict := do
  let c ← parseCase
  let w ← parseWave
  expect "aux"
  let w0 ← parseWave
  let m := runModel c
  let (corr, bo, ba) := diffWave 1e-6 m w
  let (_, cep, _) := c.frames.headD (0.0, [], [])
  let orc := match w, w0 with
    | .ok ys, .ok y0s => Id.run do
      let y := ys.toArray; let y0 := y0s.toArray
      if y.size != y0.size || y.size != 3 * c.fperiod then return some "wrong number of samples"
      if c.beta == 0.0 || cep.length ≤ 2 then
        -- must change nothing at all
        if !((ys.zip y0s).all fun (a, b) => bitsEq a b) then
          return some s!"postfilter with beta={c.beta} on {cep.length} coefficients changed the output (must be a no-op)"
        return none
      let fp := c.fperiod
      -- energy over the stationary part (frames 2 and 3)
      let e := energy y fp (3 * fp); let e0 := energy y0 fp (3 * fp)
      let ratio := e / e0
      if !(ratio ≥ 0.99 && ratio ≤ 1.01) then
        return some s!"impulse-response energy changes by factor {ratio} with beta={c.beta} (alpha={c.alpha}, order {cep.length - 1})"
      -- spectral law on one full response (second pulse, inside frame 2)
      let lo := fp + 50; let hi := fp + 50 + 740
      let h := y.extract lo hi; let h0 := y0.extract lo hi
      let k := 65
      let mut dev : Array Float := #[]
      for i in [0:k] do
        let om := pi * i.toFloat / (k - 1).toFloat
        let wt := warp om c.alpha
        let pred := ((List.range cep.length).zip cep).foldl (fun acc (mi, cm) =>
            if mi ≥ 2 then acc + c.beta * cm * Float.cos (mi.toFloat * wt) else acc) 0.0
        dev := dev.push (logMagAt h om - logMagAt h0 om - pred)
      let mean := dev.foldl (· + ·) 0.0 / k.toFloat
      let worst := dev.foldl (fun mx d => fmaxF mx (fabs (d - mean))) 0.0
      if !(worst ≤ 0.04) then
        return some s!"log-spectrum change is not (1+beta) on orders >= 2 with order 1 unchanged: residual {worst} neper (beta={c.beta})"
      return none
    | _, _ => some "panicked"
  pure { corr, oracle := orc, nontriv := c.beta != 0.0 && cep.length > 2,
         cls := s!"n{if cep.length ≤ 2 then "2" else if cep.length ≤ 9 then "<=9" else ">9"}:b{if c.beta == 0.0 then "0" else if c.beta < 0.2 then "lo" else "hi"}:a{if c.alpha == 0.0 then "0" else "x"}",
         bitsOk := bo, bitsAll := ba }

/-- `C14m`: mixed voicing. The post-filter acts on every frame: with `beta = 0` or at most two coefficients nothing
    changes at all; otherwise every noise-excited frame after the first must differ from the `beta = 0` run (its
    coefficients of order ≥ 2 are scaled by `1+beta`, and the noise is never zero). -/
def runC14m : P Verdict := do
  let c ← parseCase
  let w ← parseWave
  expect "aux"
  let w0 ← parseWave
  let m := runModel c
  let (corr, bo, ba) := diffWave 1e-6 m w
  let ncoef := (c.frames.headD (0.0, [], [])).2.1.length
  let orc := match w, w0 with
    | .ok ys, .ok y0s => Id.run do
      if ys.length != y0s.length || ys.length != c.frames.length * c.fperiod then return some "wrong number of samples"
      if c.beta == 0.0 || ncoef ≤ 2 then
        if !((ys.zip y0s).all fun (a, b) => bitsEq a b) then
          return some s!"postfilter with beta={c.beta} on {ncoef} coefficients changed the output (must be a no-op)"
        return none
      let y := ys.toArray; let y0 := y0s.toArray
      let mut k := 0
      for (lf0, cep, _) in c.frames do
        let higher := (cep.drop 2).any fun x => x != 0.0
        if k ≥ 1 && lf0 == (Consts.nodata : Float) && higher then
          let same := (List.range c.fperiod).all fun i => bitsEq (y.getD (k * c.fperiod + i) 0.0) (y0.getD (k * c.fperiod + i) 0.0)
          if same then
            return some s!"unvoiced frame {k}: output with beta={c.beta} is bit-identical to the output with beta=0 — the post-filter was not applied to this frame"
        k := k + 1
      return none
    | _, _ => some "panicked"
  let nunv := (c.frames.filter fun f => f.1 == (Consts.nodata : Float)).length
  pure { corr, oracle := orc, nontriv := c.beta != 0.0 && ncoef > 2 && nunv > 0,
         cls := s!"mixed:{if nunv == c.frames.length then "allU" else if nunv == 0 then "allV" else "UV"}:lpf{if c.nlpf == 0 then "0" else "n"}:b{if c.beta == 0.0 then "0" else "x"}",
         bitsOk := bo, bitsAll := ba }

/-! ### C16 (stage level) -/
def runC16 : P Verdict := do
  let c ← parseCase
  let w ← parseWave
  expect "aux"
  let vdb ← flt
  let w1 ← parseWave
  let m := runModel c
  let (corr, bo, ba) := diffWave 1e-6 m w
  let g := Float.pow 10.0 (vdb / 20.0)
  let orc := match w, w1 with
    | .ok ys, .ok y1s =>
      firstSome [check (ys.length == y1s.length) "volume changed the number of samples",
        check ((ys.zip y1s).all fun (a, b) => closeF 1e-12 1e-300 a (g * b)) s!"samples at {vdb} dB are not 10^(v/20) = {g} times the 0 dB samples"]
    | _, _ => some "panicked"
  pure { corr, oracle := orc, nontriv := vdb != 0.0,
         cls := s!"stage{min c.stage 1}:{if vdb < 0.0 then "neg" else "pos"}", bitsOk := bo, bitsAll := ba }

/-- C11, rendering clause: a frame is rendered with noise excitation iff it carries the no-data marker; a voiced frame —
    whatever its log-F0, also below the 20 Hz floor or above the ceiling, where the period is clamped — is rendered with
    pulses. Zero spectrum (identity filter, unit gain) and no low-pass stream, so the samples *are* the excitation: a pulse
    frame holds zeros and a few positive impulses, a noise frame Gaussian samples of both signs. -/
def runC11r : P Verdict := do
  let c ← parseCase
  let w ← parseWave
  let m := runModel c
  let (corr, bo, ba) := diffWave 1e-9 m w
  let nodata : Float := -1.0e10
  let orc := match w with
    | .panic s => some s!"panicked at {s}"
    | .ok ws =>
      if ws.length != c.fperiod * c.frames.length then some "synthesize did not write fperiod samples per frame" else
      let arr := ws.toArray
      let bad := (List.range c.frames.length).find? fun k =>
        let lf0 := (c.frames.getD k (0.0, [], [])).1
        let seg := (List.range c.fperiod).map fun i => arr.getD (k * c.fperiod + i) 0.0
        let nonzero := (seg.filter fun x => x != 0.0).length
        let neg := (seg.filter fun x => x < 0.0).length
        if lf0 == nodata then
          -- noise: practically every sample non-zero, both signs present
          c.fperiod ≥ 16 && (nonzero * 10 < c.fperiod * 9 || neg == 0)
        else
          -- pulses: impulses are positive, everything else is exactly zero (at the 20 kHz ceiling and a low sampling rate the
          -- period can be below one sample, so "mostly zeros" is not part of the statement)
          neg > 0
      bad.map fun k =>
        let lf0 := (c.frames.getD k (0.0, [], [])).1
        if lf0 == nodata then s!"frame {k} carries no F0 but is not rendered with noise excitation"
        else s!"frame {k} is voiced (log-F0 {lf0}) but is rendered with noise, not with pulses"
  let lo := c.frames.any fun f => f.1 != nodata && f.1 < Float.log 20.0
  pure { corr, oracle := orc, nontriv := c.frames.length > 0,
         cls := s!"C11r:{if lo then "below-floor" else "in-range"}:{if c.frames.any (fun f => f.1 == nodata) then "mixed" else "voiced"}",
         bitsOk := bo, bitsAll := ba }

def run : P Verdict := do
  let mode ← next
  match mode with
  | "RAW" => runRaw
  | "C06" => runC06
  | "C06h" => runC06h
  | "C07" => runC07
  | "C13" => runC13
  | "C13h" => runC13h
  | "C14" => runC14
  | "C14m" => runC14m
  | "C16" => runC16
  | "C11r" => runC11r
  | _ => throw s!"unknown voc mode {mode}"

end Drv.Voc
