/-
  `pipe` op: one full-pipeline case (C01; reused by C03/C11/C15/C16 for the single-run correspondence).
  pipe <TAG> <kind> <condition> in L nstate nd (mean vari)… <stream>×ns ntimes (s e)…
       out <durations outcome> <generator outcome: ok sp lf0 lpf <wave outcome> | err msg | panic site>
-/
import Driver.Util
import Driver.Mlpg
import Driver.Voc
import Jb.Model.Engine
import Jb.Model.EngineWFb

namespace Drv.Pipe
open Drv Jb

structure CondIn where
  cond : Condition Float
  ns : Nat
  volumeDb : Float

def parseCond : P CondIn := do
  let sr ← nat; let fp ← nat; let vdb ← flt
  let ns ← nat
  let thr ← many ns flt; let gvw ← many ns flt
  let align ← boolTok; let speed ← flt; let stage ← nat; let lg ← boolTok
  let alpha ← flt; let beta ← flt; let ht ← flt
  let c0 : Condition Float :=
    { samplingFrequency := sr, fperiod := fp, volume := 1.0, msdThreshold := thr, gvWeight := gvw,
      alignment := align, speed := speed, stage := stage, useLogGain := lg, alpha := alpha, beta := beta,
      halfTone := ht }
  pure { cond := c0.setVolume vdb, ns, volumeDb := vdb }

def parseStreamIn : P (StreamIn Float) := do
  let veclen ← nat
  let nwin ← nat
  let windows ← many nwin (listOf flt)
  let nst ← nat
  let stream ← many nst (do
    let np ← nat
    let ps ← many np Drv.Mlpg.parseMV
    let msd ← flt
    pure ({ params := ps, msd } : StateParam Float))
  let gf ← boolTok
  let gv ← if gf then do
      let p ← listOf Drv.Mlpg.parseMV
      let sw ← listOf boolTok
      pure (some (p, sw))
    else pure none
  pure { vectorLength := veclen, stream, gv, windows }

def parseMatrix : P (List (List Float)) := do
  let n ← nat; let l ← nat
  many n (many l flt)

structure ImplOut where
  durs : Option (List Nat)
  params : Option (List (List Float) × List (List Float) × List (List Float))
  wave : Option (List Float)
  failure : Option String   -- err / panic text

def parseOut : P ImplOut := do
  expect "out"
  let t ← next
  let durs ← if t == "ok" then (some <$> listOf nat) else (do let _ ← next; pure none)
  let g ← next
  if g == "ok" then
    let sp ← parseMatrix; let lf0 ← parseMatrix; let lpf ← parseMatrix
    let w ← next
    if w == "ok" then
      let ws ← listOf flt
      pure { durs, params := some (sp, lf0, lpf), wave := some ws, failure := none }
    else
      let s ← next
      pure { durs, params := some (sp, lf0, lpf), wave := none, failure := some s!"generate_all panicked at {s}" }
  else
    let s ← next
    pure { durs, params := none, wave := none, failure := some s!"generator {g}: {s}" }

structure PipeCase where
  tag : String
  kind : String
  c : CondIn
  nlabels : Nat
  inp : EngineIn Float
  out : ImplOut

def parsePipe : P (Option PipeCase) := do
  let tag ← next; let kind ← next
  let c ← parseCond
  let t ← next
  if t == "labelerr" then
    let _ ← next
    return none
  let l ← nat; let nstate ← nat
  let dur ← listOf Drv.Mlpg.parseMV
  let streams ← many c.ns parseStreamIn
  let times ← listOf (do let a ← flt; let b ← flt; pure (a, b))
  let out ← parseOut
  pure (some { tag, kind, c, nlabels := l,
               inp := { nstate, nstream := c.ns, duration := dur, streams, times }, out })

def nodata : Float := -1e10

def trajDiff (name : String) (rtol : Float) (m i : List (List Float)) : Option String :=
  let fa := m.flatten; let fb := i.flatten
  let scale := maxAbs (fb.filter fun x => x != nodata)
  firstSome [
    check (m.length == i.length) s!"{name}: frames model {m.length} impl {i.length}",
    check (fa.length == fb.length) s!"{name}: values model {fa.length} impl {fb.length}",
    check ((fa.zip fb).all fun (x, y) => (x == nodata) == (y == nodata)) s!"{name}: NODATA pattern differs",
    check (closeList rtol scale fa fb) s!"{name}: trajectory differs beyond rtol={rtol} {firstDiff rtol scale fa fb}" ]

/-- stable range of the recursive synthesis filter: every frame's spectral shape within ±4 nepers of its gain.
    Mel-cepstrum: Σ_{m≥1}|c_m| ≤ 4 bounds the shape. LSP (stage s ≥ 1): the gain positive, the frequencies increasing inside
    (0, π) and `s·|ln|A(e^{jω})||` ≤ 4 on a 64-point grid, `A` built from the LSP factors. -/
def stableRange (stage : Nat) (logGain : Bool) (sp : List (List Float)) : Bool :=
  sp.all fun fr => fr.all (fun x => !x.isNaN && !x.isInf) &&
    (if stage == 0 then ((fr.drop 1).foldl (fun a x => a + fabs x) 0.0) ≤ 4.0
     else
       let w := fr.drop 1
       let increasing := (w.zip (w.drop 1)).all (fun (a, b) => a < b) && w.all (fun x => 0.0 < x && x < Drv.Voc.pi)
       increasing && (logGain || fr.headD 0.0 > 0.0) &&
         (let a := Drv.Voc.lspToA w
          (List.range 65).all fun i =>
            let om := Drv.Voc.pi * i.toFloat / 64.0
            fabs (stage.toFloat * Drv.Voc.logMagAt a om) ≤ 4.0))

def runCase (pc : PipeCase) : Verdict := Id.run do
  let c := pc.c.cond
  let speedIsOne := c.speed == 1.0
  -- model
  let mp := engineParams c speedIsOne pc.inp
  let mw := engineSynthesize Fix.repaired c speedIsOne pc.inp
  let mut corr : Option String := none
  let mut bo := 0; let mut ba := 0
  match mp, pc.out.durs, pc.out.params with
  | .ok p, some d, some (sp, lf0, lpf) =>
    corr := firstSome [
      check (p.durations == d) s!"durations model={p.durations} impl={d}",
      trajDiff "spectrum" 1e-6 p.spectrum sp, trajDiff "lf0" 1e-6 p.lf0 lf0, trajDiff "lpf" 1e-6 p.lpf lpf ]
  | .ok _, _, _ => corr := some s!"implementation failed ({pc.out.failure.getD "?"}) where the model returns parameters"
  | .panic s, _, some _ => corr := some s!"model panics at {s}, implementation returns parameters"
  | _, _, _ => pure ()
  if corr.isNone then
    match mw, pc.out.wave with
    | .ok w, some iw =>
      let scale := maxAbs iw
      let finite := iw.all fun x => !x.isNaN && !x.isInf
      corr := firstSome [check (w.length == iw.length) s!"samples model {w.length} impl {iw.length}",
        -- outside the stable range both sides may blow up; compare only while finite and moderate
        check (!finite || scale > 1e100 || closeList 1e-6 scale w iw) s!"waveform differs beyond 1e-6·peak (peak {scale}) {firstDiff 1e-6 scale w iw}"]
      bo := countBits w iw; ba := iw.length
    | .ok _, none => corr := some s!"implementation failed: {pc.out.failure.getD "?"}"
    | .panic s, some _ => corr := some s!"model panics at {s}, implementation returns a waveform"
    | _, _ => pure ()
  -- the C01 statement on the implementation's outputs
  let nstate := pc.inp.nstate
  let orc : Option String := match pc.out.failure with
    | some f => some s!"synthesis did not complete: {f}"
    | none =>
      match pc.out.durs, pc.out.wave, pc.out.params with
      | some d, some w, some (sp, _, _) =>
        let f := d.sum
        firstSome [
          check (w.length == c.fperiod * f) s!"{w.length} samples, expected frame_period {c.fperiod} × F {f}",
          check (d.length == pc.nlabels * nstate) s!"{d.length} state durations for {pc.nlabels} labels × {nstate} states",
          check (d.all (· ≥ 1)) "a state lasts less than one frame",
          check (f ≥ pc.nlabels * nstate) "F < labels × states",
          check (pc.nlabels != 0 || w.isEmpty) "empty label list did not give an empty waveform",
          check (sp.length == f) s!"{sp.length} parameter frames for F = {f}",
          (let firstBad := w.findIdx? fun x => x.isNaN || x.isInf
           match firstBad with
           | none => none
           | some k =>
             if stableRange c.stage c.useLogGain sp then some s!"non-finite sample at {k} although the spectral parameters are inside the stable range"
             else if (w.take k).any (fun x => fabs x > 1e150) then none
             else some s!"non-finite sample at {k} appears without preceding runaway growth") ]
      | _, _, _ => some "missing outputs"
  let voiced := match pc.out.params with
    | some (_, lf0, _) => (lf0.filter fun r => r.getD 0 nodata != nodata).length
    | none => 0
  let total := match pc.out.params with | some (_, lf0, _) => lf0.length | none => 0
  return { corr, oracle := orc, nontriv := pc.nlabels ≥ 2 && voiced ≥ 1 && voiced < total,
           cls := s!"{pc.kind}:ns{pc.c.ns}:st{min c.stage 1}:{if c.alignment then "align" else "speed"}:{if pc.nlabels == 0 then "empty" else "n"}:nstate{nstate}:{if Jb.engineWFb c pc.inp then "wf" else "NOT-WF"}",
           bitsOk := bo, bitsAll := ba }

def run : P Verdict := do
  match ← parsePipe with
  | none => pure { corr := some "label error in a pipe case", oracle := none }
  | some pc => pure (runCase pc)

end Drv.Pipe
