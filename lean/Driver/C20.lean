/-
  `cond` op (C20, also used by C03's setter-history stream):
  cond hdr <sr> <fp> <nstream> <stage> <lg> <alpha> nops <k> <ops…> dumps <k+1 getter dumps>
-/
import Driver.Util
import Jb.Model.Condition

namespace Drv.C20
open Drv Jb

structure Dump where
  sf : Nat
  fp : Nat
  vol : Float
  msd : List Float
  gv : List Float
  align : Bool
  speed : Float
  alpha : Float
  beta : Float
  ht : Float
  deriving Inhabited

def parseDump (n : Nat) : P Dump := do
  let sf ← nat; let fp ← nat; let vol ← flt
  let msd ← many n flt; let gv ← many n flt
  let align ← boolTok; let speed ← flt; let alpha ← flt; let beta ← flt; let ht ← flt
  pure { sf, fp, vol, msd, gv, align, speed, alpha, beta, ht }

/-- a setter call, or `load_model` called again on the condition in use -/
inductive DOp where
  | set (op : CondOp Float)
  | load

def parseSetter (t : String) : P (CondOp Float) := do
  match t with
  | "sf" => return .sf (← nat)
  | "fp" => return .fp (← nat)
  | "vol" => return .vol (← flt)
  | "msd" => do let i ← nat; return .msd i (← flt)
  | "gv" => do let i ← nat; return .gv i (← flt)
  | "speed" => return .speed (← flt)
  | "align" => return .align (← boolTok)
  | "alpha" => return .alpha (← flt)
  | "beta" => return .beta (← flt)
  | "ht" => return .ht (← flt)
  | _ => throw s!"bad cond op {t}"

/-- setters only (the e2e setter histories) -/
def parseOp : P (CondOp Float) := do parseSetter (← next)

def parseDOp : P DOp := do
  let t ← next
  if t == "load" then return .load else return .set (← parseSetter t)

def modelDump (c : Condition Float) : Dump :=
  { sf := c.samplingFrequency, fp := c.fperiod, vol := c.getVolume, msd := c.msdThreshold,
    gv := c.gvWeight, align := c.alignment, speed := c.speed, alpha := c.alpha, beta := c.beta,
    ht := c.halfTone }

def sameList (a b : List Float) : Bool := a.length == b.length && (a.zip b).all (fun (x, y) => sameF x y)

/-- model vs implementation -/
def diffDump (m i : Dump) : Option String :=
  firstSome [
    check (m.sf == i.sf) s!"sampling_frequency model={m.sf} impl={i.sf}",
    check (m.fp == i.fp) s!"fperiod model={m.fp} impl={i.fp}",
    check (closeF 1e-12 1e-12 m.vol i.vol) s!"volume model={m.vol} impl={i.vol}",
    check (sameList m.msd i.msd) s!"msd_threshold model={m.msd} impl={i.msd}",
    check (sameList m.gv i.gv) s!"gv_weight model={m.gv} impl={i.gv}",
    check (m.align == i.align) "alignment flag",
    check (sameF m.speed i.speed) s!"speed model={m.speed} impl={i.speed}",
    check (sameF m.alpha i.alpha) s!"alpha model={m.alpha} impl={i.alpha}",
    check (sameF m.beta i.beta) s!"beta model={m.beta} impl={i.beta}",
    check (sameF m.ht i.ht) s!"half_tone model={m.ht} impl={i.ht}" ]

def clamp01 (x : Float) : Float := if x < 0.0 then 0.0 else if x > 1.0 then 1.0 else x

def region (x lo hi : Float) : String :=
  if x < lo then "below" else if x == lo then "lo" else if x > hi then "above"
  else if x == hi then "hi" else "inside"

/-- The property's own statement, evaluated on the implementation's getters before/after one op. -/
def oracleStep (op : CondOp Float) (b a : Dump) : Option String × String :=
  let unchangedExcept (skip : String) : Option String :=
    firstSome [
      check (skip == "sf" || a.sf == b.sf) "sampling_frequency changed by another setter",
      check (skip == "fp" || a.fp == b.fp) "fperiod changed by another setter",
      check (skip == "vol" || bitsEq a.vol b.vol) "volume changed by another setter",
      check (skip == "msd" || sameList a.msd b.msd) "msd_threshold changed by another setter",
      check (skip == "gv" || sameList a.gv b.gv) "gv_weight changed by another setter",
      check (skip == "align" || a.align == b.align) "alignment changed by another setter",
      check (skip == "speed" || bitsEq a.speed b.speed) "speed changed by another setter",
      check (skip == "alpha" || bitsEq a.alpha b.alpha) "alpha changed by another setter",
      check (skip == "beta" || bitsEq a.beta b.beta) "beta changed by another setter",
      check (skip == "ht" || bitsEq a.ht b.ht) "half_tone changed by another setter" ]
  let othersAt (l l' : List Float) (i : Nat) : Bool :=
    l.length == l'.length &&
      ((List.range l.length).all fun j => j == i || sameF (l.getD j 0) (l'.getD j 0))
  match op with
  | .sf i => (firstSome [check (a.sf == max i 1) s!"get_sampling_frequency={a.sf} after set({i})",
      unchangedExcept "sf"], s!"sf:{if i == 0 then "zero" else "pos"}")
  | .fp i => (firstSome [check (a.fp == max i 1) s!"get_fperiod={a.fp} after set({i})",
      unchangedExcept "fp"], s!"fp:{if i == 0 then "zero" else "pos"}")
  | .vol f => (firstSome [check (closeF 1e-9 1e-9 a.vol f) s!"get_volume={a.vol} after set({f})",
      unchangedExcept "vol"], s!"vol:{region f (-60) 60}")
  | .msd i f => (firstSome [
      check (sameF (a.msd.getD i (0/0)) (clamp01 f)) s!"get_msd_threshold({i})={a.msd.getD i 0} after set({f})",
      check (othersAt a.msd b.msd i) "another stream's msd_threshold changed",
      unchangedExcept "msd"], s!"msd:{region f 0 1}")
  | .gv i f => (firstSome [
      check (sameF (a.gv.getD i (0/0)) (if f < 0.0 then 0.0 else f)) s!"get_gv_weight({i})={a.gv.getD i 0} after set({f})",
      check (othersAt a.gv b.gv i) "another stream's gv_weight changed",
      unchangedExcept "gv"], s!"gv:{region f 0 1e308}")
  | .speed f => (firstSome [
      check (sameF a.speed (if f < 1e-6 then 1e-6 else f)) s!"get_speed={a.speed} after set({f})",
      unchangedExcept "speed"], s!"speed:{region f 1e-6 1e308}")
  | .align v => (firstSome [check (a.align == v) "alignment flag not stored",
      unchangedExcept "align"], s!"align:{v}")
  | .alpha f => (firstSome [check (sameF a.alpha (clamp01 f)) s!"get_alpha={a.alpha} after set({f})",
      unchangedExcept "alpha"], s!"alpha:{region f 0 1}")
  | .beta f => (firstSome [check (sameF a.beta (clamp01 f)) s!"get_beta={a.beta} after set({f})",
      unchangedExcept "beta"], s!"beta:{region f 0 1}")
  | .ht f => (firstSome [check (bitsEq a.ht f) s!"get_additional_half_tone={a.ht} after set({f})",
      unchangedExcept "ht"], s!"ht:{region f (-24) 24}")

/-- `load_model` on a condition in use: header values are taken, the user's settings stay -/
def oracleLoad (sr fp n : Nat) (alpha : Float) (b a : Dump) : Option String :=
  firstSome [
    check (a.sf == sr && a.fp == fp) s!"after load_model: rate {a.sf} / frame period {a.fp}, header {sr} / {fp}",
    check (a.msd == List.replicate n 0.5 && a.gv == List.replicate n 1.0) "after load_model: thresholds / GV weights are not the defaults",
    check (bitsEq a.alpha alpha) s!"after load_model: alpha {a.alpha}, header {alpha}",
    check (bitsEq a.vol b.vol) s!"load_model changed the volume ({b.vol} dB -> {a.vol} dB)",
    check (bitsEq a.speed b.speed) s!"load_model changed the speed ({b.speed} -> {a.speed})",
    check (a.align == b.align) "load_model changed the alignment flag",
    check (bitsEq a.beta b.beta) s!"load_model changed beta ({b.beta} -> {a.beta})",
    check (bitsEq a.ht b.ht) s!"load_model changed the additional half tone ({b.ht} -> {a.ht})" ]

def oracleFresh (sr fp n : Nat) (alpha : Float) (d : Dump) : Option String :=
  firstSome [
    check (d.sf == sr) s!"default sampling rate {d.sf} != header {sr}",
    check (d.fp == fp) s!"default frame period {d.fp} != header {fp}",
    check (d.vol == 0.0) s!"fresh volume {d.vol} dB != 0",
    check (d.speed == 1.0) s!"fresh speed {d.speed} != 1",
    check (d.msd == List.replicate n 0.5) s!"fresh msd thresholds {d.msd}",
    check (d.gv == List.replicate n 1.0) s!"fresh gv weights {d.gv}",
    check (d.beta == 0.0) s!"fresh beta {d.beta}",
    check (d.ht == 0.0) s!"fresh half tone {d.ht}",
    check (!d.align) "fresh alignment flag on",
    check (bitsEq d.alpha alpha) s!"default alpha {d.alpha} != header {alpha}" ]

def run : P Verdict := do
  expect "hdr"
  let sr ← nat; let fp ← nat; let n ← nat; let stage ← nat; let lg ← boolTok; let alpha ← flt
  expect "nops"
  let k ← nat
  let ops ← many k parseDOp
  expect "dumps"
  let dumps ← many (k + 1) (parseDump n)
  let c0 : Condition Float := Condition.default.loadModel sr fp n (some stage) (some lg) (some alpha)
  let d0 := dumps.head!
  let mut corr := diffDump (modelDump c0) d0
  let mut orc := oracleFresh sr fp n alpha d0
  let mut c := c0
  let mut prev := d0
  let mut classes : List String := []
  for (op, d) in ops.zip dumps.tail do
    match op with
    | .set op =>
      match CondOp.apply c op with
      | .ok c' => c := c'
      | _ => corr := corr <|> some "model: setter index out of range (real call would panic)"
    | .load => c := c.loadModel sr fp n (some stage) (some lg) (some alpha)
    if corr.isNone then corr := diffDump (modelDump c) d
    let (o, cls) := match op with
      | .set op => oracleStep op prev d
      | .load => (oracleLoad sr fp n alpha prev d, "load")
    if orc.isNone then orc := o
    classes := cls :: classes
    prev := d
  pure { corr := corr, oracle := orc, nontriv := k > 0, cls := ",".intercalate classes.eraseDups }

end Drv.C20
